import GceTcb.Model.Mrtd
import GceTcb.Spec.Mrtd
import GceTcb.Gen.TdxConsts
import GceTcb.Proofs.TdxIntervals
import GceTcb.Proofs.TdxShapes
import GceTcb.Proofs.TdxHob
import GceTcb.Proofs.TdxCompose
import GceTcb.Proofs.TdxMain
import GceTcb.Proofs.TdxExample
/-
C05 — TDX golden MRTD equals the TDX build-time measurement of the TDVF layout.
-/
namespace GceTcb.Props.C05
open GceTcb GceTcb.Intervals GceTcb.Mrtd GceTcb.Spec.Intervals GceTcb.TdxHob GceTcb.TdxMeta

/-! ## regenerated constants -/

/-- The constants the models and specifications use are the ones in the Go source now. -/
theorem C05_consts :
    Gen.TdxConsts.extensionBufferSize = 128 ∧ Gen.TdxConsts.mrExtendChunkSize = 256 ∧
    Gen.TdxConsts.PageSize = 4096 ∧
    Gen.TdxConsts.pageAddName = "MEM.PAGE.ADD" ∧ Gen.TdxConsts.pageAddNameRange = (0, 12) ∧
    Gen.TdxConsts.pageAddGpaRange = (16, 24) ∧ Gen.TdxConsts.pageAddExtends = ["buf[:]"] ∧
    Gen.TdxConsts.mrExtendName = "MR.EXTEND" ∧ Gen.TdxConsts.mrExtendNameRange = (0, 9) ∧
    Gen.TdxConsts.mrExtendGpaRange = (16, 24) ∧
    Gen.TdxConsts.mrExtendExtends = ["buf[:]", "data[0:extensionBufferSize]", "data[extensionBufferSize:]"] ∧
    Gen.TdxConsts.initLoopCond = "i < region.GPR.Length" ∧ Gen.TdxConsts.initLoopPost = "i += mrExtendChunkSize" ∧
    Gen.TdxConsts.initLoopBody = ["i%abi.PageSize == 0 => m.pageAdd(gpa + i)",
      "measureBytes => m.mrExtend(gpa+i, data[i:i+mrExtendChunkSize])"] := by
  decide

/-! ## RAM minus declared sections -/

/-- `unacceptedMemRanges` on ANY start-sorted arrangement of its two inputs (the Go sort is unstable),
    for lists of any length.  Hypotheses: no region reaches 2^64 (`NoOverflow`) and the regions of each
    list are pairwise disjoint.  For the private ranges both are ESTABLISHED by the code before the call
    (validateTDXMetadataSections bounds every section by 2^52, validateMetadataSectionGpr refuses
    overlapping sections); for the RAM banks they are ASSUMED of the caller (and hold for every machine
    shape, `C05_shapes`).  Then: the result is the specification's difference; pointwise it is RAM minus
    private; it is ascending, pairwise disjoint and has no empty range. -/
theorem C05_unaccepted_correct (ps rs ps' rs' : List Gpr)
    (hpp : ps'.Perm ps) (hsp : SortedByStart ps') (hrp : rs'.Perm rs) (hsr : SortedByStart rs')
    (hnp : NoOverflow ps) (hnr : NoOverflow rs) (hdp : DisjointL ps) (hdr : DisjointL rs) :
    unacceptedCore ps' rs' = (difference (rs.map toIv) (ps.map toIv)).map ofIv ∧
    (∀ x, Covered x (unacceptedCore ps' rs') ↔ (Covered x rs ∧ ¬ Covered x ps)) ∧
    (∀ a ∈ unacceptedCore ps' rs', a.len ≠ 0) ∧
    (unacceptedCore ps' rs').Pairwise (fun a b => a.start + a.len ≤ b.start) := by
  refine ⟨unacceptedCore_eq_difference ps rs ps' rs' hpp hsp hrp hsr hnp hnr hdp hdr,
    unacceptedCore_pointwise ps rs ps' rs' hpp hsp hrp hsr hnp hnr hdp hdr, ?_⟩
  exact unacceptedCore_sorted ps' rs' hsp hsr (noOverflow_perm hpp.symm hnp) (noOverflow_perm hrp.symm hnr)
    (disjoint_perm hpp.symm hdp) (disjoint_perm hrp.symm hdr)

/-- The same for the model's own (stable) sort, i.e. for `ovmf.unacceptedMemRanges` as modelled. -/
theorem C05_unaccepted_correct_model (ps rs : List Gpr)
    (hnp : NoOverflow ps) (hnr : NoOverflow rs) (hdp : DisjointL ps) (hdr : DisjointL rs) :
    unacceptedMemRanges ps rs = (difference (rs.map toIv) (ps.map toIv)).map ofIv :=
  unacceptedCore_eq_difference ps rs _ _ (sortByStart_perm ps)
    (sortByStart_sorted ps (fun g hg => by have := hnp g hg; omega)) (sortByStart_perm rs)
    (sortByStart_sorted rs (fun g hg => by have := hnr g hg; omega)) hnp hnr hdp hdr

/-- The literal Go loop (which re-examines the same private range after shrinking the bank) equals the
    structurally recursive `scan` of DESIGN Appendix B.1 whenever nothing overflows. -/
theorem C05_literal_loop_eq_scan (ps : List Gpr) (r : Gpr) (h : r.len % 2 ^ 64 ≠ 0)
    (hps : NoOverflow ps) (hr : r.start + r.len < 2 ^ 64) :
    (inner ps r h).rest = (scan r ps).1 ∧ (inner ps r h).ram = (scan r ps).2.1 ∧
    (inner ps r h).out = (scan r ps).2.2 :=
  inner_eq_scan ps r h hps hr

/-- The specification itself, pointwise: a bank minus the private ranges (no assumption on the private
    ranges at all) — so the executable `Spec.difference` means what its name says. -/
theorem C05_spec_difference_pointwise (b : Iv) (priv : List Iv) (x : Nat) :
    CoveredIv x (subtract b priv) ↔ b.mem x ∧ ∀ p ∈ priv, ¬ p.mem x :=
  subtract_mem b priv x

-- non-vacuity: the design's example, unsorted, with an empty private range and an empty bank
example :
    unacceptedMemRanges [⟨20, 5⟩, ⟨7, 0⟩, ⟨10, 5⟩] [⟨40, 3⟩, ⟨0, 12⟩, ⟨50, 0⟩, ⟨12, 20⟩]
      = [⟨0, 10⟩, ⟨15, 5⟩, ⟨25, 7⟩, ⟨40, 3⟩] := by
  rw [C05_unaccepted_correct_model]
  · decide
  · intro g hg; simp only [List.mem_cons, List.not_mem_nil, or_false] at hg; rcases hg with rfl | rfl | rfl <;> decide
  · intro g hg; simp only [List.mem_cons, List.not_mem_nil, or_false] at hg; rcases hg with rfl | rfl | rfl | rfl <;> decide
  · simp only [DisjointL, List.pairwise_cons, List.mem_cons, List.not_mem_nil, or_false, Gpr.mem, forall_eq_or_imp, forall_eq]
    repeat' apply And.intro
    all_goals first | (intro x; omega) | exact List.Pairwise.nil | (intro _ hf; exact absurd hf id)
  · simp only [DisjointL, List.pairwise_cons, List.mem_cons, List.not_mem_nil, or_false, Gpr.mem, forall_eq_or_imp, forall_eq]
    repeat' apply And.intro
    all_goals first | (intro x; omega) | exact List.Pairwise.nil | (intro _ hf; exact absurd hf id)

/-! ## machine shapes -/

/-- Every machine shape of the regenerated table: `regionsForShape` does not panic and its banks are
    ascending and pairwise disjoint, do not overflow, avoid [3 GiB, 4 GiB) except for the 2 MiB
    firmware window below 4 GiB, respect the per-node maximum and sum to the shape's RAM (plus that
    window).  `decide` over the regenerated table. -/
theorem C05_shapes : ∀ e ∈ Gen.TdxConsts.shapes, ShapeOK (shapeOfEntry e) := by
  decide

/-- Lifted: the banks selected for a known machine type satisfy the preconditions that
    `C05_unaccepted_correct` assumes of the RAM banks. -/
theorem C05_shape_banks_preconditions (name : String) (s : Shape)
    (hs : findShape Gen.TdxConsts.shapes name = some s) :
    ∃ banks, machineTypeToRAMBanks Gen.TdxConsts.shapes name = .ok banks ∧ BanksWellFormed s banks ∧
      NoOverflow banks ∧ DisjointL banks ∧ SortedByStart banks := by
  obtain ⟨banks, h1, h2⟩ := shapeOK_of_table Gen.TdxConsts.shapes C05_shapes name s hs
  exact ⟨banks, h1, h2, banks_preconditions h2⟩

-- non-vacuity: the largest shape has the six banks the repository's test pins
example : machineTypeToRAMBanks Gen.TdxConsts.shapes "c3-standard-176" =
    .ok [⟨0, 0xc0000000⟩, ⟨0xffe00000, 0x200000⟩, ⟨0x100000000, 0x2b40000000⟩, ⟨0x2c40000000, 0x2c00000000⟩,
         ⟨0x5840000000, 0x2c00000000⟩, ⟨0x8440000000, 0x2c00000000⟩] := by decide

/-! ## the TD hand-off block -/

/-- Side conditions under which the uint32/uint64 arithmetic of getTDHOBList does not wrap: fewer than
    2^26 descriptors, the end-of-list address below 2^64, a section shorter than 2^63 (the validated cap
    is 2^32) and unaccepted ranges that do not overflow (they come out of `C05_unaccepted_correct`). -/
def HobSide (hob : Gpr) (priv un : List Gpr) : Prop :=
  48 * (un.length + priv.length) + 56 < 2 ^ 32 ∧ hob.start + 56 + 48 * (un.length + priv.length) < 2 ^ 64 ∧
  hob.len < 2 ^ 63 ∧ NoOverflow un

/-- getTDHOBList writes exactly the PI-specification block: 56-byte hand-off table whose EfiEndOfHobList
    is the address of the end marker, one system-memory descriptor per declared section in declared
    order, the unaccepted ranges in the given order with the early-accept attribute when they end at or
    below 4 GiB or early accept is not disabled, the 8-byte end marker, zero padding to the section
    size; and it is refused exactly when the specification's block does not fit. -/
theorem C05_hob_eq_spec (hob : Gpr) (priv un : List Gpr) (dea : Bool) (h : HobSide hob priv un) :
    (∀ b, Spec.TdHob.tdHob hob.start hob.len (priv.map pair) (un.map pair) dea = some b →
      ∃ buf, getTDHOBList hob priv un dea = .ok buf ∧ buf.toBytes = b) ∧
    (Spec.TdHob.tdHob hob.start hob.len (priv.map pair) (un.map pair) dea = none →
      getTDHOBList hob priv un dea = .err "hoboverflow") := by
  obtain ⟨h1, h2, h3, h4⟩ := h
  have hc := hobContent_eq hob priv un dea h1 h2 h4
  have hl : hob.len % 2 ^ 64 = hob.len := by omega
  have hg : ¬ hob.len ≥ 2 ^ 63 := by omega
  unfold Spec.TdHob.tdHob getTDHOBList
  simp only [hl, ← hc]
  rw [if_neg hg]
  constructor
  · intro b hb
    by_cases hfit : (hobContent hob priv un dea).length ≤ hob.len
    · rw [if_pos hfit] at hb
      injection hb with hb
      have : ¬ (hobContent hob priv un dea).length > hob.len := by omega
      rw [if_neg this]
      exact ⟨⟨hobContent hob priv un dea, hob.len - (hobContent hob priv un dea).length⟩, rfl,
        by simp only [HostBuf.toBytes, Spec.TdHob.zeros] at *; exact hb⟩
    · rw [if_neg hfit] at hb; simp at hb
  · intro hn
    by_cases hfit : (hobContent hob priv un dea).length ≤ hob.len
    · rw [if_pos hfit] at hn; simp at hn
    · have : (hobContent hob priv un dea).length > hob.len := by omega
      rw [if_pos this]

/-- Size: an accepted hand-off block has exactly the section's memory size; it is refused exactly when
    64 + 48·(sections + unaccepted ranges) exceeds that size (no wrap assumption needed beyond a
    section size below 2^63, i.e. no panic). -/
theorem C05_hob_size (hob : Gpr) (priv un : List Gpr) (dea : Bool) (h : hob.len < 2 ^ 63) :
    (∀ buf, getTDHOBList hob priv un dea = .ok buf → buf.length = hob.len) ∧
    (getTDHOBList hob priv un dea = .err "hoboverflow" ↔ 64 + 48 * (priv.length + un.length) > hob.len) := by
  have hl : hob.len % 2 ^ 64 = hob.len := by omega
  have hg : ¬ hob.len ≥ 2 ^ 63 := by omega
  have hlen := hobContent_length hob priv un dea
  unfold getTDHOBList
  simp only [hl]
  rw [if_neg hg]
  by_cases hfit : (hobContent hob priv un dea).length > hob.len
  · rw [if_pos hfit]
    exact ⟨fun buf hb => by simp at hb, ⟨fun _ => by omega, fun _ => rfl⟩⟩
  · rw [if_neg hfit]
    refine ⟨?_, ⟨fun hb => by simp at hb, fun hc => by omega⟩⟩
    intro buf hb
    injection hb with hb
    rw [← hb]; simp only [HostBuf.length]; omega

-- non-vacuity: the repository's own test vector (TD HOB at 4 GiB, 0xe0 bytes, two sections, no banks)
example : HobSide ⟨0x100000000, 0xe0⟩ [⟨0x100000000, 0xe0⟩, ⟨0xffe00000, 168⟩] [] :=
  ⟨by decide, by decide, by decide, fun g hg => by simp at hg⟩
example : getTDHOBList ⟨0x100000000, 0xe0⟩ [⟨0x100000000, 0xe0⟩, ⟨0xffe00000, 168⟩] [] true ≠ .err "hoboverflow" := by
  intro h
  have := (C05_hob_size ⟨0x100000000, 0xe0⟩ [⟨0x100000000, 0xe0⟩, ⟨0xffe00000, 168⟩] [] true (by decide)).2.mp h
  simp at this

/-! ## the record stream -/

/-- The launch-mode plumbing regenerated from the source is the one the model implements: which parser
    fields each exported entry point sets and whether it passes the caller's banks on; which entry point
    tdx.MRTD selects for which option; which Measurement constructor it uses. -/
theorem C05_modes :
    Gen.TdxConsts.parserModes =
      [("ExtractMaterialGuestPhysicalRegionsNoUnacceptedMemory", ["MeasureAllRegions"], true),
       ("ExtractMaterialGuestPhysicalRegionsTDHOBBug", ["DisableEarlyAccept", "MeasureAllRegions"], true),
       ("ExtractMaterialGuestPhysicalRegions", ["DisableEarlyAccept"], false)] ∧
    Gen.TdxConsts.mrtdExtractSel =
      [("opts.DisableUnacceptedMemory", "ExtractMaterialGuestPhysicalRegionsNoUnacceptedMemory"),
       ("opts.MeasureAllRegions", "ExtractMaterialGuestPhysicalRegionsTDHOBBug"),
       ("", "ExtractMaterialGuestPhysicalRegions")] ∧
    Gen.TdxConsts.mrtdMeasurementSel = ("NewMeasurementTDHOBBug", "NewMeasurement") ∧
    Gen.TdxConsts.earlyAcceptBelow = 4 * 1024 * 1024 * 1024 ∧
    Gen.TdxConsts.earlyAcceptCond = "(unacceptedGpr.end() <= 4*gib) || !p.DisableEarlyAccept" ∧
    Gen.TdxConsts.tdhobBaseAttributes = 7 ∧ Gen.TdxConsts.EFIResourceAttributeNeedsEarlyAccept = 0x10000000 ∧
    Gen.TdxConsts.EFIResourceSystemMemory = 0 ∧ Gen.TdxConsts.EFIResourceMemoryUnaccepted = 7 ∧
    Gen.TdxConsts.TDXMetadataAttributeExtendMR = 1 ∧
    [Gen.TdxConsts.TDXMetadataSectionTypeBFV, Gen.TdxConsts.TDXMetadataSectionTypeCFV,
     Gen.TdxConsts.TDXMetadataSectionTypeTDHOB, Gen.TdxConsts.TDXMetadataSectionTypeTempMem] = [0, 1, 2, 3] := by
  decide

/-- The two 128-byte extension buffers of the code are the ones of the TDX module specification
    (every GPA): ASCII name at offset 0, GPA little-endian at 16..24, zeros elsewhere; MR.EXTEND is
    followed by the 256-byte chunk as two further 128-byte blocks. -/
theorem C05_records (gpa : Nat) (chunk : Bytes) :
    Mrtd.pageAdd gpa = Spec.Mrtd.pageAddRec gpa ∧ Mrtd.mrExtend gpa chunk = Spec.Mrtd.mrExtendRec gpa chunk :=
  ⟨pageAdd_eq gpa, mrExtend_eq gpa chunk⟩

/-- InitMemoryRegion, every region whose range does not wrap (ranges of accepted metadata end below
    2^52): the bytes written to the digest are the specification's records of the section — per 4 KiB
    page one PAGE.ADD, then, when the section is measured, sixteen MR.EXTEND records with the page's
    256-byte chunks. -/
theorem C05_region_stream_eq_spec (measureAll : Bool) (r : Region) (s : Bytes)
    (hr : r.gpr.start + r.gpr.len ≤ 2 ^ 64) (hs : r.gpr.start < 2 ^ 64) (hl : r.gpr.len < 2 ^ 64)
    (h : initMemoryRegion measureAll r = .ok s) :
    s = Spec.Mrtd.sectionRecs (specSectionOf measureAll r) :=
  initMemoryRegion_eq_spec measureAll r s hr hs hl h

/-- Sections not flagged for extension contribute page-add records only, unless measure-all: when
    neither the region's attribute bit 0 nor the measure-all mode is set, the bytes written for the
    region are exactly one PAGE.ADD buffer per page, independent of any contents. -/
theorem C05_non_extended_sections (r : Region) (s : Bytes)
    (hr : r.gpr.start + r.gpr.len ≤ 2 ^ 64) (hs : r.gpr.start < 2 ^ 64) (hl : r.gpr.len < 2 ^ 64)
    (hattr : r.attrs &&& 1 = 0) (h : initMemoryRegion false r = .ok s) :
    s = (List.range (r.gpr.len / 4096)).flatMap (fun k => Spec.Mrtd.pageAddRec (r.gpr.start + 4096 * k)) := by
  have := initMemoryRegion_eq_spec false r s hr hs hl h
  have hm : measureOf false r = false := by simp [measureOf, hattr]
  rw [this]
  simp only [hm]
  exact sectionRecs_not_extended _ _ _

/-- … and in the legacy measure-all modes the extend bit is forced on every region by the parser. -/
theorem C05_measure_all_forces_extend (fw : Bytes) (s : Codecs.TdxSection) (st st' : PState)
    (h : parseStep true fw s st = .ok st') : ∀ r ∈ st'.regions, r ∉ st.regions → r.attrs &&& 1 = 1 := by
  intro r hr hn
  unfold parseStep at h
  simp only [if_true] at h
  repeat' (split at h)
  all_goals try (simp at h; done)
  all_goals (injection h with h; subst h; simp only [List.mem_append, List.mem_singleton] at hr)
  all_goals (rcases hr with hr | hr; exact absurd hr hn; subst hr; simp only []; exact or_one_and_one _)

/-! ## the end-to-end theorem -/

/-- What validateTDXMetadataSections / extractTDXMetadata accept, in both directions: `md` is returned
    exactly when the image carries it at the place the GUIDed table advertises (`readTDXMetadata`: the
    code path up to and including abi.TDXMetadataFromBytes) and it is declaratively valid (`MetaValid`:
    magic, version, length field; every section with memory size ≤ 4 GiB, range inside the 52-bit
    space and a known type, firmware volumes with non-empty raw data inside the image and memory
    size = raw size; at most 4 GiB declared in total; exactly one TD_HOB; a BFV; the firmware volumes'
    raw sizes adding up, as uint32, to the image length). -/
theorem C05_valid_metadata (fw : Bytes) (md : Codecs.TdxMetadata) :
    extractTDXMetadata fw = .ok md ↔ readTDXMetadata fw = .ok md ∧ MetaValid (fw.length % 2 ^ 32) md :=
  extract_iff_valid fw md

/-- **Gluing lemma** (the step that used to be checked only by correspondence).  For every image (no
    size bound), parser configuration and bank list: ExtractMaterialGuestPhysicalRegions* returns
    `regions` exactly when the image's metadata passes validation, the declared memory ranges are
    pairwise disjoint, the TD_HOB section `h` is among the first 2^31 entries and the generated hand-off
    block fits it; and then `regions` is the declared section list IN DECLARED ORDER, each region with
    the section's memory range and attributes (extend bit forced in the measure-all modes), buffer
    `image[DataOffset, +size)` for BFV / CFV, the hand-off block built from the declared ranges in
    declared order and `unacceptedMemRanges declared banks` for `h`, and for temporary memory a
    zero-filled buffer of the section's size (measure-all) or no buffer (default). -/
theorem C05_regions_are_sections (o : ParserOpts) (fw : Bytes) (banks : List Gpr) (regions : List Region) :
    parse o fw banks = .ok regions ↔
      ∃ md h b, extractTDXMetadata fw = .ok md ∧ DisjointL (md.sections.map gprOf) ∧
        md.sections.find? isHob = some h ∧ md.sections.findIdx isHob < 2 ^ 31 ∧
        getTDHOBList (gprOf h) (md.sections.map gprOf) (unacceptedMemRanges (md.sections.map gprOf) banks)
          o.disableEarlyAccept = .ok b ∧
        regions = md.sections.map (finalRegion o.measureAll fw b) :=
  parse_iff o fw banks regions

/-- … with the buffers spelled out. -/
theorem C05_region_of_section (ma : Bool) (fw : Bytes) (b : HostBuf) (s : Codecs.TdxSection) :
    (finalRegion ma fw b s).gpr = ⟨s.memoryBase, s.memorySize⟩ ∧
    (finalRegion ma fw b s).attrs = (if ma then s.attributes ||| 1 else s.attributes) ∧
    (finalRegion ma fw b s).buf =
      if s.sectionType = 2 then b
      else if s.sectionType = 0 ∨ s.sectionType = 1 then
        ⟨(fw.drop s.dataOffset).take (s.dataOffset + s.dataSize - s.dataOffset), 0⟩
      else ⟨[], if ma then s.memorySize else 0⟩ :=
  ⟨finalRegion_gpr ma fw b s, finalRegion_attrs ma fw b s, finalRegion_buf ma fw b s⟩

/-- **C05, end to end.**  For every hash `H`, every image `fw` (no size bound), every option
    combination (the three launch modes: `modeOf o` is `.default`, `.measureAll` — legacy measure-all —
    or `.measureAllEarly` — legacy measure-all with early accept; DisableUnacceptedMemory wins) and
    every bank list that, in the two modes that use it, is pairwise disjoint and does not reach 2^64
    (true of every machine shape: `C05_shape_banks_preconditions`):

    tdx.MRTD returns the digest `d`  ⟺  the image has VALID TDVF metadata `md` (`Valid`: located and
    decoded from the image, `MetaValid`, pairwise disjoint page-aligned memory ranges, TD_HOB among the
    first 2^31 entries, and — unless everything is measured — no non-empty temporary-memory section
    flagged for extension) and `d` is `H` of the specification's stream (`Spec.Mrtd.mrtdOf`): for the
    sections in declared order, page by page, TDH.MEM.PAGE.ADD then, if the section is flagged for
    extension or the mode measures everything, sixteen TDH.MR.EXTEND records; contents `image[DataOffset,
    +size)` for firmware volumes, zeros for temporary memory, and for the TD_HOB section the
    specification's hand-off block (`Spec.TdHob.tdHob`: hand-off table, one system-memory descriptor
    per declared section in declared order, `Spec.Intervals.difference banks sections` as unaccepted
    memory in ascending order with the mode's early-accept attribute, end marker, zero padding) — the
    stream exists exactly when that block fits its section.

    In particular: never a digest for invalid metadata, never a digest different from the
    specification's, and a digest for every valid image whose hand-off block fits. -/
theorem C05_mrtd_eq_spec (H : Bytes → Bytes) (o : LaunchOptions) (fw d : Bytes)
    (hb : modeOf o ≠ .default → NoOverflow o.banks ∧ DisjointL o.banks) :
    mrtd H o fw = .ok d ↔
      ∃ md, Valid (modeOf o) fw md ∧
        Spec.Mrtd.mrtdOf H (modeOf o) fw (o.banks.map pair) (md.sections.map metaOf) = some d :=
  mrtd_iff H o fw d hb

/-- … and for every GCE machine shape of the regenerated table the bank precondition is discharged: with
    the banks `machineTypeToRAMBanks` selects for a known machine type (what LaunchOptionsDefaultTDHOBBug
    and generateAllPossibleMRTDs pass), in the legacy measure-all mode (`early = false`) and the legacy
    measure-all mode with early accept (`early = true`), the equivalence holds with no hypothesis left. -/
theorem C05_mrtd_eq_spec_shapes (H : Bytes → Bytes) (name : String) (s : Shape)
    (hs : findShape Gen.TdxConsts.shapes name = some s) (early : Bool) (fw d : Bytes) :
    ∃ banks, machineTypeToRAMBanks Gen.TdxConsts.shapes name = .ok banks ∧
      (mrtd H { banks := banks, disableUnacceptedMemory := early, measureAllRegions := true } fw = .ok d ↔
        ∃ md, Valid (if early then .measureAllEarly else .measureAll) fw md ∧
          Spec.Mrtd.mrtdOf H (if early then .measureAllEarly else .measureAll) fw (banks.map pair)
            (md.sections.map metaOf) = some d) := by
  obtain ⟨banks, h1, _, h3, h4, _⟩ := C05_shape_banks_preconditions name s hs
  refine ⟨banks, h1, ?_⟩
  have hm : modeOf { banks := banks, disableUnacceptedMemory := early, measureAllRegions := true } =
      (if early then .measureAllEarly else .measureAll) := by cases early <;> rfl
  have := C05_mrtd_eq_spec H { banks := banks, disableUnacceptedMemory := early, measureAllRegions := true } fw d
    (fun _ => ⟨h3, h4⟩)
  rw [hm] at this
  exact this

-- non-vacuity of `C05_mrtd_eq_spec`: a concrete 4 KiB image (Proofs/TdxExample.lean: BFV = the image,
-- a TD_HOB page, two temporary-memory pages, metadata found through the GUIDed table) is `Valid`, the
-- specification's stream exists for it, and tdx.MRTD returns its hash — default mode and legacy
-- measure-all mode with a bank; and the empty image is not valid, so it never yields a digest
example (mode : Spec.Mrtd.Mode) : Valid mode TdxExample.exFw TdxExample.exMd := TdxExample.ex_valid mode
example (H : Bytes → Bytes) : ∃ d, mrtd H {} TdxExample.exFw = .ok d ∧
    Spec.Mrtd.mrtdOf H .default TdxExample.exFw [] (TdxExample.exMd.sections.map metaOf) = some d := by
  obtain ⟨s, hs, hm⟩ := TdxExample.ex_mrtd_default H
  exact ⟨H s, hm, by unfold Spec.Mrtd.mrtdOf; rw [hs]; rfl⟩
example (H : Bytes → Bytes) :
    ∃ d, mrtd H { banks := TdxExample.exBanks, measureAllRegions := true } TdxExample.exFw = .ok d := by
  obtain ⟨s, _, hm⟩ := TdxExample.ex_mrtd_all H
  exact ⟨H s, hm⟩

/-- The form the driver evaluates on every correspondence case: whenever tdx.MRTD returns a digest and
    `md` is the metadata extractTDXMetadata returns for the image, the specification's digest over
    `md`'s sections exists and is that digest. -/
theorem C05_mrtd_digest_is_spec (H : Bytes → Bytes) (o : LaunchOptions) (fw d : Bytes) (md : Codecs.TdxMetadata)
    (hb : modeOf o ≠ .default → NoOverflow o.banks ∧ DisjointL o.banks)
    (hmd : extractTDXMetadata fw = .ok md) (h : mrtd H o fw = .ok d) :
    Spec.Mrtd.mrtdOf H (modeOf o) fw (o.banks.map pair) (md.sections.map metaOf) = some d := by
  obtain ⟨md', hv, hd⟩ := (C05_mrtd_eq_spec H o fw d hb).mp h
  have h1 := ((C05_valid_metadata fw md).mp hmd).1
  rw [hv.located] at h1
  injection h1 with h1
  rw [← h1]; exact hd

/-- Invalid TDVF metadata never yields a digest (one clause per way `Valid` can fail is an instance). -/
theorem C05_rejects_invalid (H : Bytes → Bytes) (o : LaunchOptions) (fw : Bytes)
    (hb : modeOf o ≠ .default → NoOverflow o.banks ∧ DisjointL o.banks)
    (hinv : ∀ md, ¬ Valid (modeOf o) fw md) : ∀ d, mrtd H o fw ≠ .ok d := by
  intro d h
  obtain ⟨md, hv, _⟩ := (C05_mrtd_eq_spec H o fw d hb).mp h
  exact hinv md hv

-- non-vacuity: the empty image has no valid metadata
example (H : Bytes → Bytes) (d : Bytes) : mrtd H {} [] ≠ .ok d :=
  C05_rejects_invalid H {} [] (fun h => absurd rfl h)
    (fun md hv => by have := hv.located; simp [readTDXMetadata, GuidTable.getFwGUIDToBlockMap, GuidTable.getFwGUIDTable] at this) d

/-- The records hashed are those of the regions in order (kept from the first round; now a corollary
    used by C08's cost bounds): MRTD = H over the specification's record stream of the returned regions. -/
theorem C05_mrtd_region_stream (H : Bytes → Bytes) (o : LaunchOptions) (fw d : Bytes)
    (h : mrtd H o fw = .ok d) :
    ∃ regions, mrtdRegions o fw = .ok regions ∧
      d = H (regions.flatMap (fun r => Spec.Mrtd.sectionRecs (specSectionOf o.measureAllRegions r))) :=
  mrtd_eq_region_stream H o fw d h

-- non-vacuity: a measured one-page region yields 128 + 16·384 bytes, an unmeasured one 128
example : (initMemoryRegion false ⟨⟨0x1000, 0x1000⟩, ⟨[], 4096⟩, 1⟩).isOk = true := by decide
example : initChecks false ⟨⟨0x1000, 0x2000⟩, ⟨[], 0⟩, 0⟩ = .ok false := by decide

end GceTcb.Props.C05
