import GceTcb.Proofs.Verify
/-
C01 — Accepted endorsements are authentic: signature, chain and time.
Property theorems only (model: Model/Verify.lean, helper lemmas and `Authentic`: Proofs/Verify.lean).

All theorems hold for EVERY choice of the primitives (`Prims`: protobuf, X.509 parsing and path
validation, RSA-PSS verification, third-party report/quote validators, HTTP, files) — nothing is assumed
about them — and for every input of every entry point.  The model describes the repository with the
TdxValidate fix applied ("verify the endorsement before deriving the policy").
-/
namespace GceTcb.Verify
open GceTcb

variable {Cert Roots Time : Type}

/-- Whenever any entry point accepts, the endorsement it decided about exists, the caller's trust roots
    exist, and that endorsement is authentic for those roots at the caller's time: its payload
    unmarshals, the embedded certificate is non-empty, parses and chains to the caller's roots at the
    caller's time, and the signature is a PSS/SHA-256 signature by that certificate over exactly the
    payload bytes carried. -/
theorem C01_accept_authentic (P : Prims Cert Roots Time) (ep : EntryPoint) (inp : Input Roots Time ep)
    (h : run P ep inp = accept) :
    ∃ e r, endorsementUsed P ep inp = some e ∧ callerRoots P ep inp = some r ∧
      Authentic P e r (callerNow ep inp) := by
  cases ep with
  | endorsement =>
    obtain ⟨ser, o⟩ := inp
    obtain ⟨e, r, he, hr, ha⟩ := endorsement_accept P ser o h
    exact ⟨e, r, he, hr, ha⟩
  | endorsementProto =>
    obtain ⟨e, o⟩ := inp
    obtain ⟨r, hr, ha⟩ := endorsementProto_accept P e o h
    exact ⟨e, r, rfl, hr, ha⟩
  | snpClosure =>
    obtain ⟨a, e, r, hatt, hr, ha, hsel⟩ := snpClosure_accept P _ _ _ _ h
    rcases hsel with hsel | ⟨_, s, hs, hu⟩
    · cases hsel
    · refine ⟨e, r, ?_, hr, ha⟩
      simp only [endorsementUsed, hatt, hs, hu]
  | snpClosurePre =>
    obtain ⟨i, e0⟩ := inp
    obtain ⟨a, e, r, _, hr, ha, hsel⟩ := snpClosure_accept P _ _ _ _ h
    rcases hsel with hsel | ⟨hn, _⟩
    · cases hsel
      exact ⟨e0, r, rfl, hr, ha⟩
    · cases hn
  | sevValidate =>
    obtain ⟨att, o⟩ := inp
    obtain ⟨e, r, he, hr, ha⟩ := sevValidate_accept P att o h
    exact ⟨e, r, by simp [endorsementUsed, he, exceptToOption], hr, ha⟩
  | tdxValidate =>
    obtain ⟨parse, bytes, o⟩ := inp
    obtain ⟨e, r, he, hr, ha⟩ := tdxValidate_accept P parse bytes o h
    exact ⟨e, r, by simp [endorsementUsed, he, exceptToOption], hr, ha⟩
  | cliVerify =>
    obtain ⟨b, path, root⟩ := inp
    obtain ⟨e, r, he, hr, ha⟩ := cliVerify_accept P b path root h
    exact ⟨e, r, by simp [endorsementUsed, he, exceptToOption], by simp [callerRoots, hr, exceptToOption], ha⟩
  | cliSevValidate =>
    obtain ⟨parse, b, a⟩ := inp
    simp only [run, cliSevValidate] at h
    split at h
    · cases h
    · rename_i content hcontent
      split at h
      · cases h
      · rename_i oe hoe
        split at h
        · cases h
        · rename_i rot hrot
          split at h
          · cases h
          · rename_i sa hsa
            obtain ⟨e, r, he, hr, ha⟩ := sevValidate_accept P _ _ h
            simp at hr
            subst hr
            refine ⟨e, rot, ?_, by simp [callerRoots, hrot, exceptToOption], ha⟩
            simp only [endorsementUsed, hcontent, hoe, hrot, hsa, he, exceptToOption]
          · cases h
  | cliTdxValidate =>
    obtain ⟨parse, b, a⟩ := inp
    simp only [run, cliTdxValidate] at h
    split at h
    · cases h
    · rename_i content hcontent
      split at h
      · cases h
      · rename_i oe hoe
        split at h
        · cases h
        · rename_i rot hrot
          obtain ⟨e, r, he, hr, ha⟩ := tdxValidate_accept P _ _ _ h
          simp at hr
          subst hr
          refine ⟨e, rot, ?_, by simp [callerRoots, hrot, exceptToOption], ha⟩
          have he' : tdxEndorsement P content
              { endorsement := oe, basePolicy := a.basePolicy, overwrite := a.overwrite, roots := none,
                now := b.now, expectedRAMGiB := 0 } = .ok e := by
            simpa [tdxEndorsement] using he
          simp only [endorsementUsed, hcontent, hoe, he', exceptToOption]

/-- "No change to payload, signature, certificate, root set or time that breaks any of these is ever
    accepted": if the endorsement an entry point decides about is not authentic for the caller's roots
    at the caller's time (or there is no such endorsement, or no roots), the entry point does not accept. -/
theorem C01_not_authentic_rejected (P : Prims Cert Roots Time) (ep : EntryPoint) (inp : Input Roots Time ep)
    (hna : ∀ e r, endorsementUsed P ep inp = some e → callerRoots P ep inp = some r →
      ¬ Authentic P e r (callerNow ep inp)) :
    run P ep inp ≠ accept := by
  intro h
  obtain ⟨e, r, he, hr, ha⟩ := C01_accept_authentic P ep inp h
  exact hna e r he hr ha

/-- Each single broken clause suffices (library verifier, spelled out): a payload that does not
    unmarshal, an empty or unparsable certificate, a chain that does not verify against the caller's
    roots at the caller's time, or a signature that does not verify over the carried bytes. -/
theorem C01_broken_clause_rejected (P : Prims Cert Roots Time) (e : Endorsement) (o : Options Roots Time)
    (hbroken :
      P.unmarshalGolden e.payload = none ∨
      (∃ g, P.unmarshalGolden e.payload = some g ∧
        (g.cert = [] ∨ o.roots = none ∨ P.parseCert g.cert = none ∨
         (∃ c r, P.parseCert g.cert = some c ∧ o.roots = some r ∧
            (P.verifyChain c r o.now = false ∨ P.checkSigPss256 c e.payload e.signature = false))))) :
    endorsementProto P e o ≠ accept := by
  intro h
  obtain ⟨r, hr, g, c, hg, hne, hp, hv, hs⟩ := endorsementProto_accept P e o h
  rcases hbroken with hb | ⟨g', hg', hb⟩
  · simp [hb] at hg
  · rw [hg] at hg'
    cases hg'
    rcases hb with hb | hb | hb | ⟨c', r', hc', hr', hb⟩
    · exact hne hb
    · simp [hb] at hr
    · simp [hb] at hp
    · rw [hp] at hc'
      cases hc'
      rw [hr] at hr'
      cases hr'
      rcases hb with hb | hb
      · simp [hb] at hv
      · simp [hb] at hs

/-- Order of checks: nothing of the golden measurement other than timestamp, cl_spec, commit and cert
    influences the outcome before the signature check.  Two parses of the payload that agree on those
    four fields and differ arbitrarily elsewhere (digest, SEV-SNP and TDX measurements, every other
    field) give the same result — same error class, same panic — whenever the signature over the payload
    does not verify under the embedded certificate. -/
theorem C01_nothing_trusted_before_sig (P : Prims Cert Roots Time) (e : Endorsement) (o : Options Roots Time)
    (g1 g2 : Golden)
    (hts : g1.timestamp = g2.timestamp) (hcl : g1.clSpec = g2.clSpec) (hcm : g1.commit = g2.commit)
    (hcert : g1.cert = g2.cert)
    (hsig : ∀ c, P.parseCert g1.cert = some c → P.checkSigPss256 c e.payload e.signature = false) :
    endorsementProto { P with unmarshalGolden := fun _ => some g1 } e o =
    endorsementProto { P with unmarshalGolden := fun _ => some g2 } e o := by
  have hb : beforeSignature { P with unmarshalGolden := fun _ => some g2 } g2.timestamp g2.clSpec g2.commit g2.cert o
      = beforeSignature { P with unmarshalGolden := fun _ => some g1 } g1.timestamp g1.clSpec g1.commit g1.cert o := by
    rw [← hts, ← hcl, ← hcm, ← hcert]; rfl
  simp only [endorsementProto, verifySigned, hb]
  cases hc : beforeSignature { P with unmarshalGolden := fun _ => some g1 } g1.timestamp g1.clSpec g1.commit g1.cert o with
  | panic s => rfl
  | err c => rfl
  | ok c =>
    obtain ⟨_, _, _, hp, _⟩ := checkCertificate_ok _ _ _ _ _ (beforeSignature_ok _ _ _ _ _ _ _ hc)
    have := hsig c hp
    simp [this]

/-- The same for TDX validation: the policy and quote checks (which read the golden measurement's TDX
    rows) are consulted only after the endorsement verified; when verification fails the result is that
    failure whatever those primitives say. -/
theorem C01_tdx_policy_after_verification (P : Prims Cert Roots Time) (parse : Bytes → Option TeeAttestation)
    (bytes : Bytes) (o : TdxValidateOptions Roots Time) (q : Nat) (e : Endorsement)
    (hq : parse bytes = some (.tdx q)) (he : tdxEndorsement P bytes o = .ok e)
    (hv : endorsementProto P e (tdxVerifyOpts o) ≠ accept)
    (pol : Endorsement → Nat → Bool → Nat → Option Nat) (qc : Nat → Nat → Bool) :
    tdxValidate { P with tdxPolicyOptions := pol, tdxQuoteChecks := qc } parse bytes o =
      endorsementProto P e (tdxVerifyOpts o) := by
  have he' : tdxEndorsement { P with tdxPolicyOptions := pol, tdxQuoteChecks := qc } bytes o = .ok e := he
  have hep : endorsementProto { P with tdxPolicyOptions := pol, tdxQuoteChecks := qc } e (tdxVerifyOpts o)
      = endorsementProto P e (tdxVerifyOpts o) := rfl
  simp only [tdxValidate, hq, he', hep]
  cases hres : endorsementProto P e (tdxVerifyOpts o) with
  | panic s => rfl
  | err c => rfl
  | ok u => cases u; exact absurd hres hv

/-- Signer-side self check (sign/ops.VerifySignatureFromCA): acceptance means the key's certificate
    chains to the CA's own pool at `now` and made a PSS/SHA-256 signature over exactly `message`. -/
theorem C01_ops_accept_authentic (P : Prims Cert Roots Time) (cert : Option Cert) (pool : Option Roots)
    (now : Time) (message signature : Bytes)
    (h : opsVerifySignatureFromCA P cert pool now message signature = accept) :
    ∃ c r, cert = some c ∧ pool = some r ∧ P.verifyChain c r now = true ∧
      P.checkSigPss256 c message signature = true := by
  unfold opsVerifySignatureFromCA at h
  split at h
  · cases h
  · rename_i c
    split at h
    · cases h
    · rename_i r
      split at h
      · cases h
      · rename_i hv
        split at h
        · cases h
        · rename_i hs
          exact ⟨c, r, rfl, rfl, by simpa using hv, by simpa using hs⟩

/-! ### Non-vacuity: a concrete world in which entry points accept, and one single-fault neighbour each -/

open Example in
/-- the library verifier, the closure, SevValidate and TdxValidate accept the genuine endorsement at a
    time inside the validity window … -/
example :
    run P .endorsement ([0xE0], opts 150) = accept ∧
    run P .snpClosure ⟨gceUefiFamilyID, opts 150, some att, some [0xE0]⟩ = accept ∧
    run P .sevValidate (some att, ⟨none, 0, false, some "caller-roots", 150, none, 0, false⟩) = accept ∧
    run P .tdxValidate (fun _ => some (.tdx 5), [1], ⟨some ⟨[0xA0], [0x5A]⟩, 0, false, some "caller-roots", 150, 0⟩)
      = accept ∧
    run P .cliVerify (⟨fun p => if p == "e" then some [0xE0] else if p == "r" then some [0x52] else none,
      none, 150⟩, "e", "r") = accept := by
  decide

open Example in
/-- … and reject one second-class neighbour each: outside the window, a flipped signature, a foreign
    root set, an unendorsed measurement, a TDX endorsement with a flipped signature. -/
example :
    run P .endorsement ([0xE0], opts 201) = reject "chain" ∧
    run P .endorsementProto (⟨[0xA0], [0x5B]⟩, opts 150) = reject "signature" ∧
    run P .endorsement ([0xE0], { opts 150 with roots := some "other-roots" }) = reject "chain" ∧
    run P .endorsement ([0xE0], { opts 150 with roots := none }) = reject "no-roots" ∧
    run P .snpClosure ⟨gceUefiFamilyID, opts 150, some { att with measurement := List.replicate 48 8 },
      some [0xE0]⟩ = reject "snp:measurement-not-listed" ∧
    run P .tdxValidate (fun _ => some (.tdx 5), [1], ⟨some ⟨[0xA0], [0x5B]⟩, 0, false, some "caller-roots", 150, 0⟩)
      = reject "signature" := by
  decide

open Example in
/-- What the fix repairs: TdxValidate as it was before (no verification before deriving the policy)
    accepts the genuine payload with a flipped signature, under an unrelated root set, at a time outside
    the certificate's validity — an endorsement that is not authentic; the repaired function rejects it. -/
theorem C01_tdx_unverified_witness :
    tdxValidateUnverified P (fun _ => some (.tdx 5)) [1]
      ⟨some ⟨[0xA0], [0x5B]⟩, 0, false, some "other-roots", 999, 0⟩ = accept ∧
    ¬ Authentic P ⟨[0xA0], [0x5B]⟩ "other-roots" 999 ∧
    tdxValidate P (fun _ => some (.tdx 5)) [1]
      ⟨some ⟨[0xA0], [0x5B]⟩, 0, false, some "other-roots", 999, 0⟩ = reject "chain" := by
  refine ⟨by decide, ?_, by decide⟩
  rintro ⟨g, c, _, _, _, hv, _⟩
  revert hv
  simp [P]

open Example in
/-- `Authentic` is satisfiable and not trivially true. -/
example : Authentic P ⟨[0xA0], [0x5A]⟩ "caller-roots" 150 ∧ ¬ Authentic P ⟨[0xA0], [0x5B]⟩ "caller-roots" 150 := by
  refine ⟨⟨goodGolden, 1, by decide, by decide, by decide, by decide, by decide⟩, ?_⟩
  rintro ⟨g, c, hg, _, hp, _, hs⟩
  have hg' : g = goodGolden := by
    have : P.unmarshalGolden [0xA0] = some goodGolden := by decide
    simp only at hg
    rw [this] at hg
    exact (Option.some.inj hg).symm
  subst hg'
  have hc : c = 1 := by
    have : P.parseCert goodGolden.cert = some 1 := by decide
    rw [this] at hp
    exact (Option.some.inj hp).symm
  subst hc
  revert hs
  decide

end GceTcb.Verify
