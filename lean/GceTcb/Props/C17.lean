import GceTcb.Proofs.Policy
/-
C17 — Policy derivation never weakens or mutates the caller's policy.

The model functions are pure, so "leaves the caller's base policy unchanged" holds of the model by
construction; on the Go side it is tied by comparing a snapshot of the base taken before the call
(harness stream c17).  `rest` stands for every policy field the code does not name.
-/
namespace GceTcb.Policy
open GceTcb

/-- Unrelated base fields are carried over untouched, and the minimum-SVN constraint is never edited. -/
theorem C17_sev_rest_preserved {R : Type} (pem : Pem) (s : SevSnp) (p q : SevPolicy R)
    (o : SevPolicyOptions R) (h : modifyPolicy pem s p o = some q) :
    q.rest = p.rest ∧ q.minimumGuestSvn = p.minimumGuestSvn := by
  have st := modifyPolicy_steps pem s p q o h
  have sm := setMeasurement_spec pem s _ q o st.1
  have spp := setPolicy_spec s p o.overwrite
  exact ⟨sm.2.2.2.2.1.trans spp.2.2.2.2.1, sm.2.2.2.1.trans spp.2.1⟩

/-- Without overwrite, every value already set in the base survives unchanged (or the derivation
    fails): guest policy bits, measurement, minimum SVN (which moreover admits the endorsed SVN); the
    trusted key lists only grow. -/
theorem C17_sev_no_weaken {R : Type} (pem : Pem) (s : SevSnp) (p q : SevPolicy R)
    (o : SevPolicyOptions R) (how : o.overwrite = false) (h : modifyPolicy pem s p o = some q) :
    (p.policy ≠ 0 → q.policy = p.policy) ∧
    (p.measurement ≠ [] → q.measurement = p.measurement) ∧
    q.minimumGuestSvn = p.minimumGuestSvn ∧ (p.minimumGuestSvn ≠ 0 → p.minimumGuestSvn ≤ s.svn) ∧
    (∃ l, q.trustedIdKeys = p.trustedIdKeys ++ l) ∧ (∃ l, q.trustedAuthorKeys = p.trustedAuthorKeys ++ l) := by
  have st := modifyPolicy_steps pem s p q o h
  have sm := setMeasurement_spec pem s _ q o st.1
  have spp := setPolicy_spec s p o.overwrite
  obtain ⟨hpm, hsvn⟩ := st.2 how
  refine ⟨?_, ?_, sm.2.2.2.1.trans spp.2.1, hsvn, ?_, ?_⟩
  · intro hne
    rw [sm.2.2.1, spp.2.2.2.2.2.1 (Or.inl how)]
    exact pma_policy s p _ hpm hne
  · intro hne
    by_cases hz : o.launchVmsas = 0
    · rw [(sm.2.1 hz).1, spp.1]
    · exact (pma_measurement s p _ _ hpm hz (sm.1 hz) hne)
  · rcases sm.2.2.2.2.2 with ⟨_, h1, _⟩ | ⟨idb, _, _, h1, _⟩
    · exact ⟨[], by rw [h1, spp.2.2.1]; simp⟩
    · exact ⟨[idb], by rw [h1, spp.2.2.1]⟩
  · rcases sm.2.2.2.2.2 with ⟨_, _, h2⟩ | ⟨_, _, _, _, ⟨_, h2⟩ | ⟨ab, _, h2⟩⟩
    · exact ⟨[], by rw [h2, spp.2.2.2.1]; simp⟩
    · exact ⟨[], by rw [h2, spp.2.2.2.1]; simp⟩
    · exact ⟨[ab], by rw [h2, spp.2.2.2.1]⟩

/-- What is placed in the result comes from the endorsement: the measurement for the named count,
    the endorsed guest policy (unless overwrite keeps a non-zero base policy), and exactly the
    CERTIFICATE blocks of the CA bundle (one identity key, at most one author key, nothing after). -/
theorem C17_sev_result_from_endorsement {R : Type} (pem : Pem) (s : SevSnp) (p q : SevPolicy R)
    (o : SevPolicyOptions R) (h : modifyPolicy pem s p o = some q) :
    (o.launchVmsas ≠ 0 → mlookup s.measurements o.launchVmsas = some q.measurement) ∧
    (o.launchVmsas = 0 → q.measurement = p.measurement ∧ o.allowUnspecifiedVmsas = true) ∧
    (o.overwrite = false ∨ p.policy = 0 → q.policy = s.policy) ∧
    (o.overwrite = true → p.policy ≠ 0 → q.policy = p.policy) ∧
    BundleApplied pem s.caBundle p q := by
  have st := modifyPolicy_steps pem s p q o h
  have sm := setMeasurement_spec pem s _ q o st.1
  have spp := setPolicy_spec s p o.overwrite
  refine ⟨sm.1, fun hz => ⟨(sm.2.1 hz).1.trans spp.1, (sm.2.1 hz).2⟩,
    fun hc => sm.2.2.1.trans (spp.2.2.2.2.2.1 hc), fun h1 h2 => sm.2.2.1.trans (spp.2.2.2.2.2.2 h1 h2), ?_⟩
  unfold BundleApplied at *
  rcases sm.2.2.2.2.2 with ⟨hb, h1, h2⟩ | ⟨idb, rest, hd, h1, h2⟩
  · exact Or.inl ⟨hb, h1.trans spp.2.2.1, h2.trans spp.2.2.2.1⟩
  · refine Or.inr ⟨idb, rest, hd, by rw [h1, spp.2.2.1], ?_⟩
    rcases h2 with ⟨hr, h2⟩ | ⟨ab, hd2, h2⟩
    · exact Or.inl ⟨hr, by rw [h2, spp.2.2.2.1]⟩
    · exact Or.inr ⟨ab, hd2, by rw [h2, spp.2.2.2.1]⟩

/-- TDX: unrelated fields survive; an existing MRTD allow-list is replaced only with overwrite; the
    allow-list placed in the result is exactly the endorsement's MRTDs for the requested size. -/
theorem C17_tdx {Q R : Type} (eq : Q) (er : R) (rs : List TdxRow) (o : TdxPolicyOptions Q R)
    (q : TdxPolicy Q R) (h : tdxPolicy eq er (some rs) o = some q) :
    q.rest = (o.base.getD ⟨none, er⟩).rest ∧
    (∃ b, q.body = some b ∧
      b.anyMrTd = (rs.filter (fun m => o.ramGib == 0 || m.ramGib == u32 o.ramGib)).map (·.mrtd) ∧
      b.restQ = (((o.base.getD ⟨none, er⟩).body.map (·.restQ)).getD eq)) ∧
    (o.overwrite = false → ∀ b0, (o.base.getD ⟨none, er⟩).body = some b0 → b0.anyMrTd = []) := by
  simp only [tdxPolicy] at h
  split at h
  · cases h
  · split at h
    · cases h
    · unfold modifyTdxPolicy at h
      split at h
      · rename_i hb
        cases h
        refine ⟨rfl, ⟨_, rfl, rfl, by simp [hb]⟩, ?_⟩
        intro _ b0 hb0
        rw [hb] at hb0; cases hb0
      · rename_i b hb
        split at h
        · cases h
        · rename_i hc
          cases h
          refine ⟨rfl, ⟨_, rfl, rfl, by simp [hb]⟩, ?_⟩
          intro how b0 hb0
          rw [hb] at hb0; cases hb0
          simp only [how, Bool.not_false, Bool.and_true, Bool.not_eq_true', List.isEmpty_eq_false_iff,
            ne_eq, Decidable.not_not] at hc
          simpa using hc

/-- Non-vacuity: a base policy with guest policy, measurement and minimum SVN set is extended by an
    agreeing endorsement; a disagreeing measurement is refused without overwrite and replaced with it. -/
example :
    let pem : Pem := fun b => if b = [1] then some ("CERTIFICATE", [7], []) else none
    let m : Bytes := List.replicate 48 9
    let s : SevSnp := ⟨0x30000, 5, [(4, m)], [], [1]⟩
    let base : SevPolicy Nat := ⟨0x30000, m, 3, [[1, 2]], [], 42⟩
    (modifyPolicy pem s base ⟨none, 4, false, false⟩).map (fun q => (q.trustedIdKeys, q.rest)) = some ([[1, 2], [7]], 42) ∧
    (modifyPolicy pem s { base with measurement := [0] } ⟨none, 4, false, false⟩).isNone = true ∧
    (modifyPolicy pem s { base with measurement := [0] } ⟨none, 4, true, false⟩).map (·.measurement) = some m := by
  decide

end GceTcb.Policy
