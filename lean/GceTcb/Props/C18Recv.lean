import GceTcb.Proofs.Codecs
import GceTcb.Proofs.EventLog
import GceTcb.Proofs.EventLogRecv
import GceTcb.Gen.RecvStores
import GceTcb.Gen.AbiSizes
import GceTcb.Spec.AbiLayouts
/-
C18 — Binary codecs are mutually inverse, size-exact and strict: the clauses for a REUSED receiver / buffer.

The Go decoders decode INTO a value the caller supplies, the `Put…` encoders write INTO a buffer the caller supplies.
Props/C18.lean states round-trip and canonicity for the functional decoders (a decode into a fresh value).
Here, over Model/EventLogRecv.lean (`…Into recv input : RRes Value`, the receiver's state after the call on every
path, following the Go stores one by one):

  `C18_recv_X_indep`     for ALL receivers and inputs the decode into the receiver reports what the functional decoder
                         reports — success, value, rest, error class (`toRes … = read…`); `C18_recv_X_iff` is the
                         two-directional reading `…Into recv b = ok v rest ↔ read… b = ok v rest`;
  `C18_recv_X_roundtrip` / `C18_recv_X_canon`   the round-trip and canonicity theorems of Props/C18.lean for a reused
                         receiver (whatever it held: earlier successful decodings or the leftovers of failed ones);
  `C18_recv_X_failed*`   what a FAILED decode leaves in the receiver: unchanged (sized array, string, GUID), the exact
                         partial stores (digest, SHA-1 array, digest array = the elements decoded so far), and the
                         observations `C18_recv_*_failed_reencodes` (a failed decode can leave a receiver that
                         re-encodes to bytes that were never accepted — with witnesses);
  `C18_recv_finding_*`   the four store variants that are NOT the tree (seeded C18-G `keepOnEmpty`; `digestsAppend`;
                         `logAppends` = CryptoAgileLog.Unmarshal before the repair; `event3Reuse`) each violate
                         `C18_recv_*_indep`, by a concrete receiver and input;
  `C18_recv_put_*`       buffer-writing encoders: the bytes written do not depend on the previous buffer contents and
                         nothing beyond the documented size is touched; the buffer after a refused PutSevEsResetBlock;
  `C18_recv_fields_assigned`   regenerated from the Go source: per Unmarshal method the receiver fields assigned and that
                         every successful return is preceded by the stores the model makes.
-/
namespace GceTcb.C18Recv
open GceTcb GceTcb.Codec GceTcb.Codecs GceTcb.EventLog
open GceTcb.Gen GceTcb.Spec

/-! ## success does not depend on the receiver -/

theorem C18_recv_SizedArray_indep (k : RKind) (w : Nat) (recv b : Bytes) :
    (readSizedArrayInto .tree k w recv b).toRes = readSizedArray ⟨true, k⟩ w b := toRes_readSizedArrayInto k w recv b

theorem C18_recv_SizedArray_iff (k : RKind) (w : Nat) (recv b d rest : Bytes) :
    readSizedArrayInto .tree k w recv b = .ok d rest ↔ readSizedArray ⟨true, k⟩ w b = .ok d rest := by
  rw [← C18_recv_SizedArray_indep k w recv b]; exact RRes.toRes_ok_iff.symm

theorem C18_recv_CStr_indep (k : RKind) (recv b : Bytes) :
    (readCStrInto .tree k recv b).toRes = readCStr ⟨true, k⟩ b := toRes_readCStrInto k recv b

theorem C18_recv_CStr_iff (k : RKind) (recv b s rest : Bytes) :
    readCStrInto .tree k recv b = .ok s rest ↔ readCStr ⟨true, k⟩ b = .ok s rest := by
  rw [← C18_recv_CStr_indep k recv b]; exact RRes.toRes_ok_iff.symm

theorem C18_recv_U32Array_indep (k : RKind) (recv b : Bytes) :
    (readU32ArrayInto .tree k recv b).toRes = readU32Array ⟨true, k⟩ b := toRes_readU32ArrayInto k recv b

theorem C18_recv_U32Array_iff (k : RKind) (recv b d rest : Bytes) :
    readU32ArrayInto .tree k recv b = .ok d rest ↔ readU32Array ⟨true, k⟩ b = .ok d rest := by
  rw [← C18_recv_U32Array_indep k recv b]; exact RRes.toRes_ok_iff.symm

theorem C18_recv_Guid_indep (recv b : Bytes) : (readGuidInto recv b).toRes = readGuid b := toRes_readGuidInto recv b

theorem C18_recv_Guid_iff (recv b u rest : Bytes) : readGuidInto recv b = .ok u rest ↔ readGuid b = .ok u rest := by
  rw [← C18_recv_Guid_indep recv b]; exact RRes.toRes_ok_iff.symm

theorem C18_recv_Digest_indep (recv : Digest) (b : Bytes) : (readDigestInto recv b).toRes = readDigest b :=
  toRes_readDigestInto recv b

theorem C18_recv_Digest_iff (recv d : Digest) (b rest : Bytes) :
    readDigestInto recv b = .ok d rest ↔ readDigest b = .ok d rest := by
  rw [← C18_recv_Digest_indep recv b]; exact RRes.toRes_ok_iff.symm

theorem C18_recv_DigestArray_indep (recv : List Digest) (b : Bytes) :
    (readDigestArrayInto .tree recv b).toRes = readDigestArray b := toRes_readDigestArrayInto recv b

theorem C18_recv_DigestArray_iff (recv ds : List Digest) (b rest : Bytes) :
    readDigestArrayInto .tree recv b = .ok ds rest ↔ readDigestArray b = .ok ds rest := by
  rw [← C18_recv_DigestArray_indep recv b]; exact RRes.toRes_ok_iff.symm

theorem C18_recv_Event3_indep (recv : Event3) (data : Bytes) :
    (unmarshalEvent3Into .tree recv data).toRes = unmarshalEvent3 true data := toRes_unmarshalEvent3Into recv data

theorem C18_recv_Event3_iff (recv e : Event3) (data rest : Bytes) :
    unmarshalEvent3Into .tree recv data = .ok e rest ↔ unmarshalEvent3 true data = .ok e rest := by
  rw [← C18_recv_Event3_indep recv data]; exact RRes.toRes_ok_iff.symm

theorem C18_recv_EventData_indep (k : RKind) (recv : EventData) (b : Bytes) :
    (readEventDataInto .tree k recv b).toRes = readEventData ⟨true, k⟩ b := toRes_readEventDataInto k recv b

theorem C18_recv_EventData_iff (k : RKind) (recv d : EventData) (b rest : Bytes) :
    readEventDataInto .tree k recv b = .ok d rest ↔ readEventData ⟨true, k⟩ b = .ok d rest := by
  rw [← C18_recv_EventData_indep k recv b]; exact RRes.toRes_ok_iff.symm

theorem C18_recv_PcrEvent_indep (k : RKind) (recv : PcrEvent) (b : Bytes) :
    (readPcrEventInto .tree k recv b).toRes = readPcrEvent ⟨true, k⟩ b := toRes_readPcrEventInto k recv b

theorem C18_recv_PcrEvent_iff (k : RKind) (recv e : PcrEvent) (b rest : Bytes) :
    readPcrEventInto .tree k recv b = .ok e rest ↔ readPcrEvent ⟨true, k⟩ b = .ok e rest := by
  rw [← C18_recv_PcrEvent_indep k recv b]; exact RRes.toRes_ok_iff.symm

theorem C18_recv_Event2_indep (k : RKind) (recv : Event2) (b : Bytes) :
    (readEvent2Into .tree k recv b).toRes = readEvent2 ⟨true, k⟩ b := toRes_readEvent2Into k recv b

theorem C18_recv_Event2_iff (k : RKind) (recv e : Event2) (b rest : Bytes) :
    readEvent2Into .tree k recv b = .ok e rest ↔ readEvent2 ⟨true, k⟩ b = .ok e rest := by
  rw [← C18_recv_Event2_indep k recv b]; exact RRes.toRes_ok_iff.symm

/-- the whole log, after the repair of CryptoAgileLog.Unmarshal (`cel.Events = nil`) -/
theorem C18_recv_Log_indep (k : RKind) (recv : Log) (b : Bytes) :
    (readLogInto .tree k recv b).toRes = readLog ⟨true, k⟩ b := toRes_readLogInto k recv b

theorem C18_recv_Log_iff (k : RKind) (recv l : Log) (b rest : Bytes) :
    readLogInto .tree k recv b = .ok l rest ↔ readLog ⟨true, k⟩ b = .ok l rest := by
  rw [← C18_recv_Log_indep k recv b]; exact RRes.toRes_ok_iff.symm

/-- two receivers, one input: the same report (so also: a receiver that holds the leftovers of a failed decode
    behaves like a fresh one) — stated for the three top-level entry points -/
theorem C18_recv_same_result (k : RKind) (b : Bytes) :
    (∀ r1 r2 : Log, (readLogInto .tree k r1 b).toRes = (readLogInto .tree k r2 b).toRes) ∧
    (∀ r1 r2 : Event3, (unmarshalEvent3Into .tree r1 b).toRes = (unmarshalEvent3Into .tree r2 b).toRes) ∧
    (∀ r1 r2 : Event2, (readEvent2Into .tree k r1 b).toRes = (readEvent2Into .tree k r2 b).toRes) ∧
    (∀ r1 r2 : PcrEvent, (readPcrEventInto .tree k r1 b).toRes = (readPcrEventInto .tree k r2 b).toRes) := by
  refine ⟨?_, ?_, ?_, ?_⟩ <;> intro r1 r2 <;> simp

/-- a history: whatever sequence of inputs was decoded into the receiver before (each successfully or not), the
    next decode reports what a fresh decode reports -/
theorem C18_recv_Log_after_history (k : RKind) (history : List Bytes) (start : Log) (b : Bytes) :
    (readLogInto .tree k (history.foldl (fun r p => (readLogInto .tree k r p).recv) start) b).toRes = readLog ⟨true, k⟩ b :=
  toRes_readLogInto k _ b

theorem C18_recv_Event3_after_history (history : List Bytes) (start : Event3) (b : Bytes) :
    (unmarshalEvent3Into .tree (history.foldl (fun r p => (unmarshalEvent3Into .tree r p).recv) start) b).toRes =
      unmarshalEvent3 true b :=
  toRes_unmarshalEvent3Into _ b

/-! ## round trip and canonicity for reused receivers (corollaries of Props/C18.lean's theorems) -/

theorem C18_recv_SizedArray_roundtrip (k : RKind) (w : Nat) (recv d t : Bytes) (h : d.length < 256 ^ w) :
    ∃ bs, writeSizedArray w d = some bs ∧ readSizedArrayInto .tree k w recv (bs ++ t) = .ok d t :=
  ⟨_, writeSizedArray_eq w d h,
    (C18_recv_SizedArray_iff k w recv _ d t).2 (readSizedArray_enc ⟨true, k⟩ w d t h (Good.noEmpty (Or.inl rfl) d t))⟩

theorem C18_recv_SizedArray_canon (k : RKind) (w : Nat) (recv b d rest : Bytes)
    (h : readSizedArrayInto .tree k w recv b = .ok d rest) : b = leBytes w d.length ++ d ++ rest :=
  (readSizedArray_canon (cfg := ⟨true, k⟩) rfl ((C18_recv_SizedArray_iff k w recv b d rest).1 h)).1

theorem C18_recv_CStr_roundtrip (k : RKind) (recv s t : Bytes) (h : s.length ≤ 254) :
    ∃ bs, writeCStr s = some bs ∧ readCStrInto .tree k recv (bs ++ t) = .ok s t :=
  ⟨_, writeCStr_eq s h, (C18_recv_CStr_iff k recv _ s t).2 (readCStr_enc ⟨true, k⟩ s t h)⟩

theorem C18_recv_CStr_canon (k : RKind) (recv b s rest : Bytes) (h : readCStrInto .tree k recv b = .ok s rest) :
    ∃ bs, writeCStr s = some bs ∧ b = bs ++ rest := by
  obtain ⟨h1, h2⟩ := readCStr_canon (cfg := ⟨true, k⟩) rfl ((C18_recv_CStr_iff k recv b s rest).1 h)
  exact ⟨_, writeCStr_eq s h2, h1⟩

theorem C18_recv_Guid_roundtrip (recv u t : Bytes) (h : u.length = 16) : readGuidInto recv (writeGuid u ++ t) = .ok u t :=
  (C18_recv_Guid_iff recv _ u t).2 (readGuid_enc u t h)

theorem C18_recv_Guid_canon (recv b u rest : Bytes) (h : readGuidInto recv b = .ok u rest) : b = writeGuid u ++ rest :=
  (readGuid_canon ((C18_recv_Guid_iff recv b u rest).1 h)).1

theorem C18_recv_Digest_roundtrip (recv d : Digest) (t : Bytes) (h : d.InRange) :
    ∃ bs, writeDigest d = some bs ∧ readDigestInto recv (bs ++ t) = .ok d t :=
  ⟨_, writeDigest_eq d h, (C18_recv_Digest_iff recv d _ t).2 (readDigest_enc d t h)⟩

theorem C18_recv_Digest_canon (recv d : Digest) (b rest : Bytes) (h : readDigestInto recv b = .ok d rest) :
    ∃ bs, writeDigest d = some bs ∧ b = bs ++ rest := by
  obtain ⟨h1, h2⟩ := readDigest_canon ((C18_recv_Digest_iff recv d b rest).1 h)
  exact ⟨_, writeDigest_eq d h2, h1⟩

theorem C18_recv_Event3_roundtrip (recv e : Event3) (n : Nat) (h : e.InRange) :
    unmarshalEvent3Into .tree recv (encEvent3Fields e ++ zeros n) = .ok e [] :=
  (C18_recv_Event3_iff recv e _ []).2 (unmarshalEvent3_enc true e n h)

/-- an SP800-155 payload accepted into a reused receiver is the fields' encoding followed by zeros only -/
theorem C18_recv_Event3_canon (recv e : Event3) (data r : Bytes) (h : unmarshalEvent3Into .tree recv data = .ok e r) :
    e.InRange ∧ ∃ f n, writeEvent3Fields e = some f ∧ data = f ++ zeros n := by
  obtain ⟨_, h2, n, h3⟩ := unmarshalEvent3_canon ((C18_recv_Event3_iff recv e data r).1 h)
  exact ⟨h2, _, n, writeEvent3Fields_eq e h2, h3⟩

theorem C18_recv_PcrEvent_roundtrip (k : RKind) (recv e : PcrEvent) (t : Bytes) (h : e.InRange) :
    ∃ bs, writePcrEvent e = some bs ∧ readPcrEventInto .tree k recv (bs ++ t) = .ok e t :=
  ⟨_, writePcrEvent_eq e h, (C18_recv_PcrEvent_iff k recv e _ t).2 (readPcrEvent_enc ⟨true, k⟩ e 0 t (Or.inl rfl) h.pad)⟩

theorem C18_recv_PcrEvent_canon (k : RKind) (recv e : PcrEvent) (b rest : Bytes)
    (h : readPcrEventInto .tree k recv b = .ok e rest) : ∃ n, b = encPcrEventPad e n ++ rest ∧ e.InRangePad n :=
  readPcrEvent_canon (cfg := ⟨true, k⟩) rfl ((C18_recv_PcrEvent_iff k recv e b rest).1 h)

theorem C18_recv_Event2_roundtrip (k : RKind) (recv e : Event2) (t : Bytes) (h : e.InRange) :
    ∃ bs, writeEvent2 e = some bs ∧ readEvent2Into .tree k recv (bs ++ t) = .ok e t :=
  ⟨_, writeEvent2_eq e h, (C18_recv_Event2_iff k recv e _ t).2 (readEvent2_enc ⟨true, k⟩ e 0 t (Or.inl rfl) h.pad)⟩

theorem C18_recv_Event2_canon (k : RKind) (recv e : Event2) (b rest : Bytes)
    (h : readEvent2Into .tree k recv b = .ok e rest) : ∃ n, b = encEvent2Pad e n ++ rest ∧ e.InRangePad n :=
  readEvent2_canon (cfg := ⟨true, k⟩) rfl ((C18_recv_Event2_iff k recv e b rest).1 h)

theorem C18_recv_Log_roundtrip (k : RKind) (recv l : Log) (h : l.InRange) :
    ∃ bs, writeLog l = some bs ∧ readLogInto .tree k recv bs = .ok l [] :=
  ⟨_, writeLog_eq l h, (C18_recv_Log_iff k recv l _ []).2 (readLog_enc ⟨true, k⟩ (Or.inl rfl) l h)⟩

/-- a log accepted into a reused receiver is an encoding of the returned log — nothing kept from the receiver, nothing
    dropped, nothing completed -/
theorem C18_recv_Log_canon (k : RKind) (recv l : Log) (b r : Bytes) (h : readLogInto .tree k recv b = .ok l r) :
    LogEnc l b :=
  readLog_canon (cfg := ⟨true, k⟩) rfl ((C18_recv_Log_iff k recv l b r).1 h)

/-! ## what a failed decode leaves in the receiver -/

/-- sized arrays (in every store variant): a failed decode leaves the receiver as it was -/
theorem C18_recv_SizedArray_failed_unchanged (v : Variant) (k : RKind) (w : Nat) (recv b : Bytes)
    (h : (readSizedArrayInto v k w recv b).isOk = false) : (readSizedArrayInto v k w recv b).recv = recv :=
  readSizedArrayInto_failed v k w recv b h

theorem C18_recv_CStr_failed_unchanged (v : Variant) (k : RKind) (recv b : Bytes)
    (h : (readCStrInto v k recv b).isOk = false) : (readCStrInto v k recv b).recv = recv :=
  readCStrInto_failed v k recv b h

theorem C18_recv_Guid_failed_unchanged (recv b : Bytes) (h : (readGuidInto recv b).isOk = false) :
    (readGuidInto recv b).recv = recv :=
  RRes.ofRes_recv_of_not_ok recv _ h

/-- TaggedDigest, exactly: a failed decode leaves the receiver unchanged (the id could not be read), or with the NEW
    algorithm id and the OLD digest (unknown id), or with the new id and the bytes that were there COMPLETED WITH ZEROS
    to the algorithm's size (short digest) -/
theorem C18_recv_Digest_failed (recv : Digest) (b : Bytes) (h : (readDigestInto recv b).isOk = false) :
    (b.length < 2 ∧ (readDigestInto recv b).recv = recv) ∨
    (2 ≤ b.length ∧ tpmAlgoSize (leVal (b.take 2)) = none ∧
      (readDigestInto recv b).recv = ⟨leVal (b.take 2), recv.digest⟩) ∨
    (∃ sz, 2 ≤ b.length ∧ tpmAlgoSize (leVal (b.take 2)) = some sz ∧ b.length - 2 < sz ∧
      (readDigestInto recv b).recv = ⟨leVal (b.take 2), b.drop 2 ++ zeros (sz - (b.length - 2))⟩) := by
  by_cases h2 : 2 ≤ b.length
  · have hle := readLE_long h2
    cases ha : tpmAlgoSize (leVal (b.take 2)) with
    | none =>
      refine Or.inr (Or.inl ⟨h2, rfl, ?_⟩)
      simp [readDigestInto, hle, ha, RRes.recv]
    | some sz =>
      by_cases hs : sz ≤ b.length - 2
      · exfalso; simp [readDigestInto, hle, ha, hs, RRes.isOk] at h
      · refine Or.inr (Or.inr ⟨sz, h2, rfl, by omega, ?_⟩)
        simp [readDigestInto, hle, ha, hs, RRes.recv]
  · refine Or.inl ⟨by omega, ?_⟩
    rcases readLE_short' h2 with he | he <;> simp [readDigestInto, he, RRes.recv]

/-- OBSERVATION: a failed TaggedDigest decode can leave a receiver that re-encodes to bytes that were never accepted:
    the receiver held a SHA-256 digest; the five bytes `04 00 01 02 03` (SHA-1 id, three of twenty digest bytes) are
    refused, and the receiver now marshals to the 22 bytes `04 00 01 02 03 00 … 00` -/
theorem C18_recv_Digest_failed_reencodes :
    readDigest [4, 0, 1, 2, 3] = .fail ∧
    readDigestInto ⟨11, zeros 32⟩ [4, 0, 1, 2, 3] = .fail ⟨4, [1, 2, 3] ++ zeros 17⟩ ∧
    writeDigest ⟨4, [1, 2, 3] ++ zeros 17⟩ = some ([4, 0, 1, 2, 3] ++ zeros 17) := by decide

/-- the SHA-1 array of a TCG_PCClientPCREvent is read in place: a failed read leaves the bytes that were there over
    the start of the old array -/
theorem C18_recv_Sha1_failed (recv b : Bytes) (h : (readSha1Into recv b).isOk = false) :
    b.length < 20 ∧ (readSha1Into recv b).recv = b ++ recv.drop b.length := by
  revert h
  simp only [readSha1Into]
  by_cases h20 : 20 ≤ b.length
  · simp only [h20, if_true]; intro h; cases h
  · simp only [h20, if_false]
    by_cases he : b.isEmpty = true
    · simp only [he, if_true]; intro _
      have : b = [] := List.isEmpty_iff.mp he
      subst this; exact ⟨by simp, by simp [RRes.recv]⟩
    · simp only [he]; intro _; exact ⟨by omega, rfl⟩

/-- OBSERVATION: header event with SHA-1 `aa…aa`, then the 11 bytes of a truncated event are refused; the receiver
    holds the new PCR index and event type and a SHA-1 array that mixes three new bytes with seventeen old ones, and
    marshals to 32 bytes that were never accepted -/
theorem C18_recv_PcrEvent_failed_reencodes (k : RKind) :
    readPcrEventInto .tree k ⟨9, 9, List.replicate 20 0xaa, .raw []⟩ [1, 0, 0, 0, 2, 0, 0, 0, 7, 7, 7] =
      .fail ⟨1, 2, [7, 7, 7] ++ List.replicate 17 0xaa, .raw []⟩ ∧
    writePcrEvent ⟨1, 2, [7, 7, 7] ++ List.replicate 17 0xaa, .raw []⟩ =
      some ([1, 0, 0, 0, 2, 0, 0, 0, 7, 7, 7] ++ List.replicate 17 0xaa ++ [0, 0, 0, 0]) := by
  cases k <;> decide

/-- the digest array: a failed decode leaves the receiver unchanged (the count could not be read) or holding exactly
    the elements that decoded before the failing one — a proper prefix of the declared count, decodable from the input -/
theorem C18_recv_DigestArray_failed_prefix (recv : List Digest) (b : Bytes)
    (h : (readDigestArrayInto .tree recv b).isOk = false) :
    (b.length < 4 ∧ (readDigestArrayInto .tree recv b).recv = recv) ∨
    (∃ m rest, m < leVal (b.take 4) ∧ readDigests m (b.drop 4) = .ok (readDigestArrayInto .tree recv b).recv rest) := by
  by_cases h4 : 4 ≤ b.length
  · have hle := readLE_long h4
    simp only [readDigestArrayInto, hle, Variant.tree, Bool.false_eq_true, if_false] at h ⊢
    obtain ⟨m, ds, rest, hm, hr, he⟩ := readDigestsInto_failed _ [] _ h
    refine Or.inr ⟨m, rest, hm, ?_⟩
    rw [he]; simpa using hr
  · refine Or.inl ⟨by omega, ?_⟩
    rcases readLE_short' h4 with he | he <;> simp [readDigestArrayInto, he, RRes.recv]

/-- OBSERVATION: TCGEventData.Unmarshal replaces `d.Event` by a fresh SP800155Event3 BEFORE decoding the payload into
    it: a refused payload (here: the signature and nothing else) leaves the receiver holding the all-zero event, which
    marshals to 62 bytes that were never accepted -/
theorem C18_recv_EventData_failed_reencodes (k : RKind) :
    readEventDataInto .tree k (.raw [1, 2, 3]) ([16, 0, 0, 0] ++ event3Signature) = .eof (.event3 Event3.zero) ∧
    (writeEventData (.event3 Event3.zero)).isSome = true := by
  cases k <;> decide

/-- OBSERVATION: a failed log decode has already replaced what the receiver held: the header and the events that decoded
    before the failing one are in the receiver (here: a log cut inside its second event; the receiver, which held another
    header and another event, now holds the new header and the first new event, and marshals to the 48-byte prefix) -/
theorem C18_recv_Log_failed_keeps_prefix (k : RKind) :
    readLogInto .tree k ⟨⟨9, 9, zeros 20, .raw [1]⟩, [⟨7, 7, [], .raw []⟩]⟩
        (zeros 32 ++ [5, 0, 0, 0] ++ zeros 12 ++ [1, 0, 0, 0]) =
      .fail ⟨⟨0, 0, zeros 20, .raw []⟩, [⟨5, 0, [], .raw []⟩]⟩ ∧
    writeLog ⟨⟨0, 0, zeros 20, .raw []⟩, [⟨5, 0, [], .raw []⟩]⟩ = some (zeros 32 ++ [5, 0, 0, 0] ++ zeros 12) := by
  cases k <;> decide

/-! ## the store variants that are not the tree violate receiver independence -/

/-- seeded change C18-G (`readSizedArray` returns early for a declared size 0 without storing the empty result):
    a Uint32SizedArray that held `01 02` still holds it after the input `00 00 00 00` was accepted, and marshals to
    `02 00 00 00 01 02` -/
theorem C18_recv_finding_keepOnEmpty (k : RKind) :
    ¬ ∀ recv b, (readU32ArrayInto ⟨true, false, false, false⟩ k recv b).toRes = readU32Array ⟨true, k⟩ b := by
  intro h
  have := h [1, 2] [0, 0, 0, 0]
  revert this; cases k <;> decide

/-- the same change at the level of SP800155Event3.UnmarshalFromBytes: the event decoded second has an empty
    PlatformCertLocator, the receiver keeps the first one's -/
theorem C18_recv_finding_keepOnEmpty_event3 :
    ∃ recv data e, unmarshalEvent3 true data = .ok e [] ∧
      unmarshalEvent3Into ⟨true, false, false, false⟩ recv data = .ok { e with platformCertLocator := [0xcc] } [] ∧
      e.platformCertLocator = [] :=
  ⟨{ Event3.zero with platformCertLocator := [0xcc] }, encEvent3Fields Event3.zero, Event3.zero, by decide, by decide, rfl⟩

/-- Uint32SizedArrayT.Unmarshal without `d.Array = nil` -/
theorem C18_recv_finding_digestsAppend :
    ¬ ∀ recv b, (readDigestArrayInto ⟨false, true, false, false⟩ recv b).toRes = readDigestArray b := by
  intro h
  have := h [⟨4, zeros 20⟩] [0, 0, 0, 0]
  revert this; decide

/-- CryptoAgileLog.Unmarshal BEFORE the repair (`cel.Events = append(cel.Events, evt)` with no reset): a receiver that
    holds one event, given a log of one event, ends with two — the defect repaired in this tree -/
theorem C18_recv_finding_logAppends (k : RKind) :
    ¬ ∀ recv b, (readLogInto ⟨false, false, true, false⟩ k recv b).toRes = readLog ⟨true, k⟩ b := by
  intro h
  have := h ⟨⟨0, 0, zeros 20, .raw []⟩, [⟨1, 2, [], .raw []⟩]⟩ (zeros 32)
  revert this; cases k <;> decide

/-- TCGEventData.Unmarshal decoding into the SP800155Event3 the receiver already holds — harmless in the tree, where
    every field is stored on every success path; together with C18-G it shows through the event data -/
theorem C18_recv_finding_event3Reuse (k : RKind) :
    ¬ ∀ recv b, (readEventDataInto ⟨true, false, false, true⟩ k recv b).toRes = readEventData ⟨true, k⟩ b := by
  intro h
  have := h (.event3 { Event3.zero with rimLocator := [7] })
    (leBytes 4 (16 + (encEvent3Fields Event3.zero).length) ++ event3Signature ++ encEvent3Fields Event3.zero)
  revert this; cases k <;> decide

/-! ## buffer-writing encoders -/

/-- every record `Put` (EFIGUID, PutUUID, FwGUIDEntry, SevMetadata(Section), MetadataOffset, TDX descriptor/section,
    PAGE_INFO): over two buffers of one length the outcome is the same; on success the first `size` bytes are the
    encoding of the value — whatever the buffer held — and the bytes from `size` on are the buffer's -/
theorem C18_recv_put_buffer_independent {α : Type} (c : Rec α) (v : α) (d1 d2 : Bytes) (h : d1.length = d2.length) :
    ((c.put v d1).isOk = (c.put v d2).isOk) ∧
    (∀ o1, c.put v d1 = .ok o1 → ∃ o2, c.put v d2 = .ok o2 ∧ o1.take c.size = c.enc v ∧ o2.take c.size = c.enc v ∧
      o1.drop c.size = d1.drop c.size ∧ o2.drop c.size = d2.drop c.size ∧ o1.length = d1.length) := by
  have hl : (c.enc v).length = c.size := Rec.enc_length c v
  by_cases hs : d1.length < c.size
  · rw [Rec.put_short c v d1 hs, Rec.put_short c v d2 (by omega)]
    exact ⟨rfl, fun o1 h => by cases h⟩
  · rw [Rec.put_ok c v d1 (by omega), Rec.put_ok c v d2 (by omega)]
    refine ⟨rfl, fun o1 h => ?_⟩
    injection h with h; subst h
    refine ⟨_, rfl, ?_, ?_, ?_, ?_, ?_⟩
    · rw [← hl]; simp
    · rw [← hl]; simp
    · rw [← hl]; simp
    · rw [← hl]; simp
    · simp only [List.length_append, List.length_drop, hl]; omega

/-- The Put encoders STORE BY STORE: a `Put` is the list of its stores `data[off:off+w] = image` in source order
    (`putStores (layoutStores layout images)`).  Over a layout without holes or overlap the result is the images in
    order followed by the buffer's bytes beyond the layout's total — for every previous content of the buffer: the
    bytes written do not depend on it and nothing outside the range is touched. -/
theorem C18_recv_put_stores_independent (l : List (Nat × Nat × String)) (imgs : List Bytes) (d1 d2 : Bytes)
    (hc : AbiLayouts.contiguous l = true) (hf : ImagesFit l imgs) (h1 : AbiLayouts.total l ≤ d1.length)
    (h : d1.length = d2.length) :
    putStores (layoutStores l imgs) d1 = imgs.flatten ++ d1.drop (AbiLayouts.total l) ∧
    putStores (layoutStores l imgs) d2 = imgs.flatten ++ d2.drop (AbiLayouts.total l) :=
  ⟨putStores_layout l imgs d1 hc hf h1, putStores_layout l imgs d2 hc hf (by omega)⟩

/-- … and that hypothesis holds for the store lists REGENERATED from the Go source (`Gen.AbiSizes.…PutLayout`: the
    explicit `data[a:b]` ranges of every Put in ovmf/abi/abi.go and sev/abi.go): each is contiguous from offset 0 and its
    total is the size the model encodes.  A Put that leaves a range unwritten (a reserved byte skipped) has a hole in
    its regenerated store list and breaks this obligation. -/
theorem C18_recv_put_layouts_contiguous :
    (∀ l ∈ [AbiSizes.EfiGuidPutLayout, AbiSizes.UuidPutLayout, AbiSizes.FwGuidEntryPutLayout,
        AbiSizes.SevMetadataSectionPutLayout, AbiSizes.SevMetadataPutLayout, AbiSizes.MetadataOffsetPutLayout,
        AbiSizes.ResetBlockPutLayout, AbiSizes.TdxDescriptorPutLayout, AbiSizes.TdxSectionPutLayout,
        AbiSizes.PageInfoPutLayout, AbiSizes.VmcbSegPutLayout], AbiLayouts.contiguous l = true) ∧
    AbiLayouts.total AbiSizes.EfiGuidPutLayout = efiGuidRec.size ∧
    AbiLayouts.total AbiSizes.UuidPutLayout = uuidRec.size ∧
    AbiLayouts.total AbiSizes.FwGuidEntryPutLayout = fwGuidEntryRec.size ∧
    AbiLayouts.total AbiSizes.SevMetadataSectionPutLayout = sevMetadataSectionRec.size ∧
    AbiLayouts.total AbiSizes.SevMetadataPutLayout = sevMetadataRec.size ∧
    AbiLayouts.total AbiSizes.MetadataOffsetPutLayout = metadataOffsetRec.size ∧
    AbiLayouts.total AbiSizes.ResetBlockPutLayout = resetBlockRec.size ∧
    AbiLayouts.total AbiSizes.TdxDescriptorPutLayout = tdxDescriptorRec.size ∧
    AbiLayouts.total AbiSizes.TdxSectionPutLayout = tdxSectionRec.size ∧
    AbiLayouts.total AbiSizes.PageInfoPutLayout = pageInfoRec.size ∧
    AbiLayouts.total AbiSizes.VmcbSegPutLayout = vmcbSegRec.size := by decide

/-- the value-level `Put` model that the stream compares with the real code (`Rec.put`) IS the store-by-store model
    over any hole-free layout with the record's widths — in particular over the regenerated one -/
theorem C18_recv_put_stores_eq_put {α : Type} (c : Rec α) (l : List (Nat × Nat × String)) (v : α) (data : Bytes)
    (hc : AbiLayouts.contiguous l = true) (hw : AbiLayouts.widths l = c.ws) (h : c.size ≤ data.length) :
    c.put v data = .ok (putStores (layoutStores l (fieldImages c.ws (c.toVals v))) data) := by
  have ht : AbiLayouts.total l = c.size := by simp [AbiLayouts.total, hw, Rec.size]
  rw [Rec.put_ok c v data h, putStores_layout l _ data hc (hw ▸ fieldImages_fit l _) (by omega), fieldImages_flatten, ht]
  rfl

example : AbiLayouts.widths AbiSizes.PageInfoPutLayout = pageInfoRec.ws ∧
    AbiLayouts.widths AbiSizes.TdxSectionPutLayout = tdxSectionRec.ws := by decide

/-- a VMCB segment written store by store over a dirty 18-byte buffer — non-vacuity of the two theorems above on a
    regenerated layout -/
example : putStores (layoutStores AbiSizes.VmcbSegPutLayout [[1, 0], [2, 0], [3, 0, 0, 0], [4, 0, 0, 0, 0, 0, 0, 0]])
      (List.replicate 18 0xa5) = [1, 0, 2, 0, 3, 0, 0, 0, 4, 0, 0, 0, 0, 0, 0, 0, 0xa5, 0xa5] := by decide
example : ImagesFit AbiSizes.VmcbSegPutLayout [[1, 0], [2, 0], [3, 0, 0, 0], [4, 0, 0, 0, 0, 0, 0, 0]] := by
  simp [ImagesFit, AbiSizes.VmcbSegPutLayout]

/-- sev.putVmcbSeg: the range checks come before any write; an accepted segment overwrites exactly 16 bytes -/
theorem C18_recv_put_VmcbSeg (s : VmcbSeg) (d1 d2 : Bytes) (h : d1.length = d2.length) :
    ((putVmcbSeg s d1).isOk = (putVmcbSeg s d2).isOk) ∧
    (∀ o1, putVmcbSeg s d1 = .ok o1 → o1 = vmcbSegRec.enc s ++ d1.drop 16 ∧
      putVmcbSeg s d2 = .ok (vmcbSegRec.enc s ++ d2.drop 16)) := by
  have hsz : vmcbSegRec.size = 16 := rfl
  simp only [putVmcbSeg, hsz, h]
  by_cases h1 : d2.length < 16
  · simp [h1, Outcome.isOk]
  · by_cases h2 : s.selector ≥ 2 ^ 16
    · simp [h1, h2, Outcome.isOk]
    · by_cases h3 : s.attrib ≥ 2 ^ 16
      · simp [h1, h2, h3, Outcome.isOk]
      · simp only [h1, h2, h3, if_false]
        refine ⟨rfl, fun o1 ho => ?_⟩
        injection ho with ho
        exact ⟨ho.symm, trivial⟩

/-- abi.PutSevEsResetBlock with the buffer on every path agrees with the value-only model; an accepted block overwrites
    exactly the 22 bytes; a refused one leaves the buffer — EXCEPT a Guid of the wrong length, which is detected after
    `Addr` and `Size` have been written: then the first six bytes are already overwritten -/
theorem C18_recv_put_ResetBlock (r : ResetBlock) (data : Bytes) :
    (∀ o, putSevEsResetBlock r data = .ok o ↔ putSevEsResetBlockInto r data = (.ok (), o)) ∧
    ((putSevEsResetBlock r data).isOk = false →
      (putSevEsResetBlockInto r data).2 = data ∨
      (22 ≤ data.length ∧ r.guid.length ≠ 16 ∧
        (putSevEsResetBlockInto r data).2 = leBytes 4 r.addr ++ leBytes 2 r.size ++ data.drop 6)) := by
  have hsz : resetBlockRec.size = 22 := rfl
  by_cases h1 : data.length < 22
  · simp [putSevEsResetBlock, putSevEsResetBlockInto, hsz, h1, Outcome.isOk]
  · by_cases h2 : r.size ≥ 2 ^ 16
    · simp [putSevEsResetBlock, putSevEsResetBlockInto, hsz, h1, h2, Outcome.isOk]
    · by_cases h3 : r.guid.length = 16
      · refine ⟨fun o => ?_, fun h => ?_⟩
        · simp [putSevEsResetBlock, putSevEsResetBlockInto, hsz, h1, h2, h3]
        · simp [putSevEsResetBlock, hsz, h1, h2, h3, Outcome.isOk] at h
      · refine ⟨fun o => ?_, fun _ => Or.inr ⟨by omega, h3, ?_⟩⟩
        · simp [putSevEsResetBlock, putSevEsResetBlockInto, hsz, h1, h2, h3]
        · simp [putSevEsResetBlockInto, hsz, h1, h2, h3]

/-- OBSERVATION: a refused PutSevEsResetBlock that changed the buffer -/
theorem C18_recv_put_ResetBlock_refused_writes :
    putSevEsResetBlock ⟨5, 7, [1, 2]⟩ (List.replicate 22 0xaa) = .err "guid" ∧
    (putSevEsResetBlockInto ⟨5, 7, [1, 2]⟩ (List.replicate 22 0xaa)).2 = [5, 0, 0, 0, 7, 0] ++ List.replicate 16 0xaa := by
  decide

/-- (*FwGUIDEntry).PopulateFromBytes: the outcome is that of the value-only model whatever the receiver held; a
    successful call leaves the decoded entry; a panicking call on 2…17 bytes has already overwritten `Size` -/
theorem C18_recv_FwGuidEntry_populate (recv : FwGuidEntry) (b : Bytes) :
    (∀ e, fwGuidEntryFromBytes b = .ok e → fwGuidEntryPopulateInto recv b = (.ok (), e)) ∧
    ((fwGuidEntryPopulateInto recv b).1.isOk = true → (fwGuidEntryFromBytes b).isOk = true) ∧
    (2 ≤ b.length → b.length < 18 →
      fwGuidEntryPopulateInto recv b = (.panic "slice", { recv with size := leVal (b.take 2) })) ∧
    (b.length < 2 → fwGuidEntryPopulateInto recv b = (.panic "slice", recv)) := by
  have hsz : fwGuidEntryRec.size = 18 := rfl
  have hok : ¬ b.length < 18 → fwGuidEntryFromBytes b = .ok (fwGuidEntryRec.ofVals (decF fwGuidEntryRec.ws b)) := by
    intro h18
    simp only [fwGuidEntryFromBytes, Rec.dec, hsz, h18, if_false, Rec.decBody]
    rfl
  have hfrom : ¬ b.length < 18 →
      fromEFIGUID ((b.drop 2).take 16) = .ok (fwGuidEntryRec.ofVals (decF fwGuidEntryRec.ws b)).guid := by
    intro h18
    have hx : ((b.drop 2).take 16).length = 16 := by simp; omega
    have hdec : decF [4, 2, 2, 8] ((b.drop 2).take 16) = decF [4, 2, 2, 8] (b.drop 2) := decF_take _ _ 16 (by decide)
    have hsz2 : efiGuidRec.size = 16 := rfl
    have hws : efiGuidRec.ws = [4, 2, 2, 8] := rfl
    simp only [fromEFIGUID, parseEFIGUID, Rec.dec, hsz2, hx, ne_eq, not_true_eq_false, if_false, Rec.decBody, hws, hdec]
    rfl
  refine ⟨?_, ?_, ?_, ?_⟩
  · intro e he
    by_cases h18 : b.length < 18
    · simp [fwGuidEntryFromBytes, Rec.dec, hsz, h18] at he
    · rw [hok h18] at he
      injection he with he
      simp only [fwGuidEntryPopulateInto, hsz, h18, if_false, show ¬ b.length < 2 by omega, hfrom h18]
      rw [← he]
      rfl
  · intro h
    by_cases h18 : b.length < 18
    · by_cases h2 : b.length < 2
      · simp [fwGuidEntryPopulateInto, h2, Outcome.isOk] at h
      · simp [fwGuidEntryPopulateInto, hsz, h2, h18, Outcome.isOk] at h
    · rw [hok h18]; rfl
  · intro h2 h18
    simp [fwGuidEntryPopulateInto, hsz, h18, show ¬ b.length < 2 by omega]
  · intro h2
    simp [fwGuidEntryPopulateInto, h2]

/-! ## regenerated from the Go source: which receiver fields each Unmarshal assigns -/

/-- Per decoder with a pointer receiver (regenerated by `verif-extract RecvStores` from the AST of eventlog/*.go and
    ovmf/abi/abi.go): the receiver fields it assigns (directly or by handing `&recv.field` to a reader), whether every
    `return nil` is preceded by a store to each of them, and the number of `return nil` statements.  These are the
    stores Model/EventLogRecv.lean makes.  A new early `return nil` before a store (seeded C18-G: one more `return nil`
    in readSizedArray, not preceded by `*data = result`), a dropped reset, or a new field left unassigned changes
    this table and breaks this obligation. -/
theorem C18_recv_fields_assigned :
    Gen.RecvStores.table =
      [("abi.FwGUIDEntry.PopulateFromBytes", ["Size", "GUID"], true, 0),
       ("eventlog.ByteSizedCStr.Unmarshal", ["Data"], true, 1),
       ("eventlog.CryptoAgileLog.Unmarshal", ["Header", "Events"], true, 1),
       ("eventlog.EfiGUID.Unmarshal", ["UUID"], true, 1),
       ("eventlog.SP800155Event3.UnmarshalFromBytes",
        ["PlatformManufacturerID", "ReferenceManifestGUID", "PlatformManufacturerStr", "PlatformModel", "PlatformVersion",
         "FirmwareManufacturerStr", "FirmwareManufacturerID", "FirmwareVersion", "RIMLocatorType", "RIMLocator",
         "PlatformCertLocatorType", "PlatformCertLocator"], true, 1),
       ("eventlog.TCGEventData.Unmarshal", ["Event"], true, 2),
       ("eventlog.TCGPCClientPCREvent.Unmarshal", ["PCRIndex", "EventType", "SHA1Digest", "EventData"], true, 1),
       ("eventlog.TCGPCREvent2.Unmarshal", ["PCRIndex", "EventType", "Digests", "EventData"], true, 1),
       ("eventlog.TaggedDigest.Unmarshal", ["AlgID", "Digest"], true, 1),
       ("eventlog.Uint32SizedArray.Unmarshal", ["Data"], true, 0),
       ("eventlog.Uint32SizedArrayT.Unmarshal", ["Array"], true, 1),
       ("eventlog.UnknownEvent.UnmarshalFromBytes", ["Data"], true, 1),
       ("eventlog.readSizedArray", ["*data"], true, 1)] ∧
    Gen.RecvStores.resets =
      [("eventlog.CryptoAgileLog.Unmarshal", "Events", "nil"), ("eventlog.TCGEventData.Unmarshal", "Event", "factory()"),
       ("eventlog.Uint32SizedArrayT.Unmarshal", "Array", "nil")] := by decide

/-! ## non-vacuity -/

example : readU32ArrayInto .tree .reader [1, 2] [0, 0, 0, 0] = .ok [] [] := by decide
example : readU32ArrayInto ⟨true, false, false, false⟩ .reader [1, 2] [0, 0, 0, 0] = .ok [1, 2] [] := by decide
example : readU32ArrayInto .tree .reader [1, 2] [5, 0, 0, 0, 9] = .fail [1, 2] := by decide
example : readCStrInto .tree .buffer [0x61] [3, 0x62, 0x63, 0] = .ok [0x62, 0x63] [] := by decide
example : readDigestArrayInto .tree [⟨4, zeros 20⟩] ([2, 0, 0, 0, 11, 0] ++ zeros 32 ++ [4, 0, 1]) =
    .fail [⟨11, zeros 32⟩] := by decide
example : readLogInto .tree .reader ⟨⟨0, 0, zeros 20, .raw []⟩, [⟨1, 2, [], .raw []⟩]⟩ (zeros 32 ++ [5, 0, 0, 0] ++ zeros 12) =
    .ok ⟨⟨0, 0, zeros 20, .raw []⟩, [⟨5, 0, [], .raw []⟩]⟩ [] := by decide
example : (Event3.zero).InRange := by decide
example : (fwGuidEntryPopulateInto ⟨7, zeros 16⟩ [1, 2, 0xff]) = (.panic "slice", ⟨513, zeros 16⟩) := by decide
example : (efiGuidRec.put ⟨1, 2, 3, zeros 8⟩ (List.replicate 18 0xa5)).isOk = true := by decide

end GceTcb.C18Recv
