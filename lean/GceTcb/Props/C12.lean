import GceTcb.Proofs.KeyHistory
/-
C12 — Chain-of-trust invariants hold over every key-management history.
Property theorems only (model: Model/KeyHistory.lean, documented profiles: Spec/KeyHistory.lean,
lemmas and the invariants: Proofs/KeyHistory.lean).

All theorems quantify over every configuration `cfg` (memca | gcsca authority, memkm | localkm manager,
both step sequencings of rotate.Key, library or CLI entry) and over every command history `h`
(unbounded list; `run cfg State.init h` is the state after the history).

`cfg.guard = true` is gcsca.upload as it is after its two "fix:" commits (an object recorded for another
key version is refused; an existing object that keep_going left unwritten is not recorded); `guard = false`
is the upload of before, kept for the witness `C12_old_keep_going_records_root_cert`.

Full-strength and proved for ALL histories (both values of `guard`): C12_root_profile, C12_serial_succ,
C12_no_clobber (gcsca), C12_wipeout_total.  Four clauses fail on the current code for histories that
bootstrap over a populated store (D18 = known findings C12-K1…K4) — and only for those: their full
statements are the `def … : Prop` below, each with a proved witness `C12_finding_…` of its negation and a
proved `…_partial` theorem whose ONLY extra hypothesis is `CleanRun` (every bootstrap of the history runs
on an empty store).  The former second hypothesis `Roles` (root common names are not given to signing
keys; finding C12-K5 / D19) is gone: the repaired upload refuses the colliding object, and the
invariant no longer distinguishes certificate objects by their common name.
-/
namespace GceTcb.KeyHistory
open GceTcb.Gen

/-- The regenerated constants are the documented ones: 25-year root (25 × 365.24 days), five years
    plus one day for signing keys, certificate-signing / digital-signature usages, RSA-PSS with
    SHA-256, certificate serial = subject serial in both template paths, serial and name increments of 1. -/
theorem C12_consts :
    CertConsts.rootValidDays = 9131 ∧ CertConsts.signValidDays = 5 * 365 + 1 ∧ CertConsts.hoursPerDay = 24 ∧
    CertConsts.googleRootDays = CertConsts.rootValidDays ∧ CertConsts.googleSignDays = CertConsts.signValidDays ∧
    CertConsts.fromCertRootDays = CertConsts.rootValidDays ∧ CertConsts.fromCertSignDays = CertConsts.signValidDays ∧
    CertConsts.googleRootIsCA = true ∧ CertConsts.googleSignIsCA = false ∧
    CertConsts.kuCertSign = 32 ∧ CertConsts.kuDigitalSignature = 1 ∧ CertConsts.sigSHA256WithRSAPSS = 13 ∧
    CertConsts.googleRootKeyUsage &&& CertConsts.kuCertSign = CertConsts.kuCertSign ∧
    CertConsts.googleSignKeyUsage = CertConsts.kuDigitalSignature ∧
    CertConsts.googleSigAlg = CertConsts.sigSHA256WithRSAPSS ∧
    CertConsts.googleSerialIsSubject = true ∧ CertConsts.fromCertSerialIsSubject = true ∧
    CertConsts.nextSerialIncrement = 1 ∧ CertConsts.rotateDefaultIncrement = 1 ∧ CertConsts.bumpIncrement = 1 := by
  decide

/-! ### root certificate -/

/-- After any history, the root certificate the authority serves is a self-signed CA certificate with
    certificate-signing usage and the documented 25-year lifetime. -/
theorem C12_root_profile (cfg : Cfg) (h : List Cmd) (r : Cert)
    (hb : bundle cfg (run cfg State.init h).ca = some r) : RootProfile r :=
  RootInv_bundle (RootInv_run cfg h State.init (RootInv_empty cfg)) hb

/-! ### signing certificates -/

/-- FULL STATEMENT (fails today, see C12_finding_rebootstrap): after any history every certificate the
    authority records, other than the root's entry, has the signing profile and is issued by the served root. -/
def C12_signing_profile : Prop :=
  ∀ (cfg : Cfg), cfg.guard = true → ∀ (h : List Cmd) (n : KName) (c : Cert),
    certificate (run cfg State.init h).ca n = some c → n ≠ (run cfg State.init h).ca.primaryRoot →
    SignProfile c ∧ ∃ r, bundle cfg (run cfg State.init h).ca = some r ∧ IssuedBy r c

/-- Proved part: histories that never bootstrap over a populated store — with ANY common names, serial
    overrides, overwrite and keep_going flags.  Missing for the full statement: bootstrap over a populated
    store leaves the previous root's signing certificates recorded (D18). -/
theorem C12_signing_profile_partial (cfg : Cfg) (hg : cfg.guard = true) (h : List Cmd)
    (hc : CleanRun cfg State.init h) (n : KName) (c : Cert)
    (hn : certificate (run cfg State.init h).ca n = some c)
    (hroot : n ≠ (run cfg State.init h).ca.primaryRoot) :
    SignProfile c ∧ ∃ r, bundle cfg (run cfg State.init h).ca = some r ∧ IssuedBy r c := by
  obtain ⟨hca, _⟩ := Inv_run cfg hg h State.init (Inv_init cfg) hc
  unfold certificate at hn
  cases he : get (run cfg State.init h).ca.entries n with
  | none => simp [he] at hn
  | some p =>
    simp only [he] at hn
    have hne : n ≠ rootName := by
      rcases hca.rootOrEmpty with h1 | ⟨_, h1⟩
      · rw [h1] at hroot; exact hroot
      · rw [h1] at he; simp [get] at he
    exact hca.good n p c he hne hn

def memCfg : Cfg := ⟨.memca, .memkm, false, false, true⟩
def gcsCfg : Cfg := ⟨.gcsca, .memkm, true, false, true⟩
/-- gcsca with upload as it was before its two "fix:" commits -/
def gcsCfgOld : Cfg := ⟨.gcsca, .memkm, true, false, false⟩
def noFlags : Flags := ⟨false, false⟩
def owFlags : Flags := ⟨true, false⟩

/-- bootstrap; rotate; bootstrap --overwrite -/
def rebootHistory : List Cmd :=
  [.bootstrap noFlags ⟨"rootA", "signA", 1, 2, 1000⟩, .rotate noFlags ⟨"signA", none, 2000⟩,
   .bootstrap owFlags ⟨"rootB", "signB", 1, 2, 3000⟩]

/-- D18 witness: after `bootstrap; rotate; bootstrap --overwrite` the entry of the rotated key still
    carries the certificate issued by the previous root (signer key 0; the served root has key 3). -/
theorem C12_finding_rebootstrap : ¬ C12_signing_profile := by
  intro hfull
  have h := hfull memCfg rfl rebootHistory ⟨"primarySigningKey", 1⟩
    ⟨3, 3, "signA", "rootA", 1, 2, 0, 0, false, 1, 13, 2000, 2000 + signLifetime⟩ (by decide) (by decide)
  obtain ⟨_, r, hr, hi, _⟩ := h
  have hr' : bundle memCfg (run memCfg State.init rebootHistory).ca =
      some ⟨1, 1, "rootB", "rootB", 1, 3, 3, 3, true, 96, 13, 3000, 3000 + rootLifetime⟩ := by decide
  rw [hr'] at hr
  cases hr
  revert hi; decide

/-- bootstrap; rotate --keep_going with the root's common name and serial (gcsca) -/
def keepGoingHistory : List Cmd :=
  [.bootstrap noFlags ⟨"rootA", "signA", 1, 2, 1000⟩, .rotate ⟨false, true⟩ ⟨"rootA", some 1, 2000⟩]

/-- the clause of `C12_signing_profile` on one configuration and history -/
def SigningProfileOn (cfg : Cfg) (h : List Cmd) : Prop :=
  ∀ (n : KName) (c : Cert), certificate (run cfg State.init h).ca n = some c → n ≠ (run cfg State.init h).ca.primaryRoot →
    SignProfile c ∧ ∃ r, bundle cfg (run cfg State.init h).ca = some r ∧ IssuedBy r c

/-- **The old upload records the root certificate as a signing certificate** (finding C12-K5 / D19, repaired):
    on gcsca as it was BEFORE the fix, a rotation with keep_going, without overwrite, whose certificate would get
    the object name of the root's certificate is recorded WITHOUT being written — the new primary's entry then
    serves the root certificate, a CA certificate — although the history is a clean run.  On the repaired
    upload the same history satisfies the clause (instance of `C12_signing_profile_partial`), the rotation is
    refused and the primary stays `primarySigningKey`. -/
theorem C12_old_keep_going_records_root_cert :
    CleanRun gcsCfgOld State.init keepGoingHistory ∧ ¬ SigningProfileOn gcsCfgOld keepGoingHistory ∧
    CleanRun gcsCfg State.init keepGoingHistory ∧ SigningProfileOn gcsCfg keepGoingHistory ∧
    (run gcsCfg State.init keepGoingHistory).ca.primarySigning = firstName := by
  refine ⟨⟨fun _ => ⟨rfl, rfl, rfl⟩, fun h => by simp [isBootstrap] at h, trivial⟩, ?_,
    ⟨fun _ => ⟨rfl, rfl, rfl⟩, fun h => by simp [isBootstrap] at h, trivial⟩, ?_, by decide⟩
  · intro hfull
    have h := hfull ⟨"primarySigningKey", 1⟩
      ⟨1, 1, "rootA", "rootA", 1, 0, 0, 0, true, 96, 13, 1000, 1000 + rootLifetime⟩ (by decide) (by decide)
    have hca := h.1.1
    revert hca; decide
  · intro n c hn hr
    exact C12_signing_profile_partial gcsCfg rfl keepGoingHistory
      ⟨fun _ => ⟨rfl, rfl, rfl⟩, fun h => by simp [isBootstrap] at h, trivial⟩ n c hn hr

/-- … and the same object with `--overwrite` (the input class of C10's finding D22, here on the root's
    certificate object): before the fix the root key version's entry ends up serving a signing certificate;
    the repaired upload refuses, the root's entry keeps serving the root certificate. -/
theorem C12_old_overwrite_clobbers_root_entry :
    (certificate (run gcsCfgOld State.init
      [.bootstrap noFlags ⟨"rootA", "signA", 1, 2, 1000⟩, .rotate owFlags ⟨"rootA", some 1, 2000⟩]).ca rootName).map (·.isCA) = some false ∧
    (certificate (run gcsCfg State.init
      [.bootstrap noFlags ⟨"rootA", "signA", 1, 2, 1000⟩, .rotate owFlags ⟨"rootA", some 1, 2000⟩]).ca rootName).map (·.isCA) = some true ∧
    (step gcsCfg (run gcsCfg State.init [.bootstrap noFlags ⟨"rootA", "signA", 1, 2, 1000⟩])
      (.rotate owFlags ⟨"rootA", some 1, 2000⟩)).2 = false := by
  decide

/-! ### serial numbers -/

/-- Unless overridden (and unless keep_going lets Finalize skip the write), a successful rotation
    records for the new primary key version `BumpName(previous primary)` a certificate whose subject
    serial is one greater than its predecessor's and whose certificate serial equals its subject serial.
    Holds after every history. -/
theorem C12_serial_succ (cfg : Cfg) (h : List Cmd) (f : Flags) (a : RotArgs)
    (hs : a.serial = none) (hk : f.keepGoing = false)
    (hok : (step cfg (run cfg State.init h) (.rotate f a)).2 = true) :
    ∃ p c, certificate (run cfg State.init h).ca (run cfg State.init h).ca.primarySigning = some p ∧
      (step cfg (run cfg State.init h) (.rotate f a)).1.ca.primarySigning = bump (run cfg State.init h).ca.primarySigning ∧
      certificate (step cfg (run cfg State.init h) (.rotate f a)).1.ca
        (step cfg (run cfg State.init h) (.rotate f a)).1.ca.primarySigning = some c ∧
      c.subjSerial = p.subjSerial + 1 ∧ c.certSerial = c.subjSerial := by
  generalize run cfg State.init h = s at hok ⊢
  simp only [step] at hok ⊢
  by_cases hb : cliBlocked cfg s.ca = true
  · simp [hb] at hok
  · simp only [hb, Bool.false_eq_true, if_false] at hok ⊢
    rw [hs] at hok ⊢
    simp only [resolveSerial] at hok ⊢
    cases hp : certificate s.ca s.ca.primarySigning with
    | none => simp [hp] at hok
    | some p =>
      simp only [hp] at hok ⊢
      obtain ⟨c, hc, hfin, hst⟩ := rotateKey_ok hok
      obtain ⟨c1, c2, _⟩ := rotCert_fields hc
      obtain ⟨k1, k2⟩ := caAfterRotate_ok_nokg hfin hk
      refine ⟨p, c, rfl, ?_, ?_, ?_, ?_⟩
      · rw [hst]; exact k1
      · rw [hst]; simp only []; rw [k1]; exact k2
      · rw [c1]; rfl
      · rw [c2, c1]

/-- With an override the recorded subject serial (and certificate serial) is the override. -/
theorem C12_serial_override (cfg : Cfg) (h : List Cmd) (f : Flags) (a : RotArgs) (n : Nat)
    (hs : a.serial = some n) (hk : f.keepGoing = false)
    (hok : (step cfg (run cfg State.init h) (.rotate f a)).2 = true) :
    ∃ c, certificate (step cfg (run cfg State.init h) (.rotate f a)).1.ca
        (step cfg (run cfg State.init h) (.rotate f a)).1.ca.primarySigning = some c ∧
      c.subjSerial = n ∧ c.certSerial = n := by
  generalize run cfg State.init h = s at hok ⊢
  simp only [step] at hok ⊢
  by_cases hb : cliBlocked cfg s.ca = true
  · simp [hb] at hok
  · simp only [hb, Bool.false_eq_true, if_false] at hok ⊢
    rw [hs] at hok ⊢
    simp only [resolveSerial] at hok ⊢
    obtain ⟨c, hc, hfin, hst⟩ := rotateKey_ok hok
    obtain ⟨c1, c2, _⟩ := rotCert_fields hc
    obtain ⟨k1, k2⟩ := caAfterRotate_ok_nokg hfin hk
    refine ⟨c, ?_, c1, c2⟩
    rw [hst]; simp only []; rw [k1]; exact k2

/-! ### only the primary signing key can sign -/

/-- FULL STATEMENT (fails today, see C12_finding_rebootstrap_old_key): among the key versions the
    authority records a signing certificate for, only the current primary can sign. -/
def C12_only_primary_signs : Prop :=
  ∀ (cfg : Cfg), cfg.guard = true → ∀ (h : List Cmd) (n : KName) (c : Cert) (k : Nat),
    certificate (run cfg State.init h).ca n = some c → n ≠ (run cfg State.init h).ca.primaryRoot →
    get (run cfg State.init h).km.live n = some k → n = (run cfg State.init h).ca.primarySigning

/-- Proved part: histories that never bootstrap over a populated store — every recorded signing key
    version other than the primary was destroyed.  Missing: bootstrap over a populated store leaves
    the previous primary alive and recorded. -/
theorem C12_only_primary_signs_partial (cfg : Cfg) (hg : cfg.guard = true) (h : List Cmd)
    (hc : CleanRun cfg State.init h) (n : KName) (c : Cert) (k : Nat)
    (hn : certificate (run cfg State.init h).ca n = some c)
    (hroot : n ≠ (run cfg State.init h).ca.primaryRoot)
    (hl : get (run cfg State.init h).km.live n = some k) :
    n = (run cfg State.init h).ca.primarySigning := by
  obtain ⟨hca, hkm⟩ := Inv_run cfg hg h State.init (Inv_init cfg) hc
  have hsome : (get (run cfg State.init h).ca.entries n).isSome = true := by
    unfold certificate at hn
    cases he : get (run cfg State.init h).ca.entries n with
    | none => simp [he] at hn
    | some p => rfl
  have hne : n ≠ rootName := by
    rcases hca.rootOrEmpty with h1 | ⟨_, h1⟩
    · rw [h1] at hroot; exact hroot
    · rw [h1] at hsome; simp [get] at hsome
  by_cases e : n = (run cfg State.init h).ca.primarySigning
  · exact e
  · have := hkm.onlyPrimary n hsome hne e
    rw [this] at hl; cases hl

/-- D18 witness: after `bootstrap; rotate; bootstrap --overwrite` the old primary `primarySigningKey_1`
    is still recorded and can still sign, while the primary is `primarySigningKey`. -/
theorem C12_finding_rebootstrap_old_key : ¬ C12_only_primary_signs := by
  intro hfull
  have h := hfull memCfg rfl rebootHistory ⟨"primarySigningKey", 1⟩
    ⟨3, 3, "signA", "rootA", 1, 2, 0, 0, false, 1, 13, 2000, 2000 + signLifetime⟩ 2 (by decide) (by decide) (by decide)
  revert h; decide

/-! ### key-version names -/

/-- BumpName keeps the prefix and strictly increases the numeric suffix. -/
theorem C12_bump_increases (k : KName) : (bump k).base = k.base ∧ k.idx < (bump k).idx :=
  ⟨rfl, by simp [bump_idx]⟩

/-- FULL STATEMENT (fails today, see C12_finding_rebootstrap_name_reuse): the name a rotation creates
    was neither certified by the authority nor destroyed since the last key wipeout. -/
def C12_names_fresh_between_wipeouts : Prop :=
  ∀ (cfg : Cfg), cfg.guard = true → ∀ (h : List Cmd) (f : Flags) (a : RotArgs),
    (step cfg (run cfg State.init h) (.rotate f a)).2 = true →
    certificate (run cfg State.init h).ca (bump (run cfg State.init h).ca.primarySigning) = none ∧
    bump (run cfg State.init h).ca.primarySigning ∉ (run cfg State.init h).km.destroyed

/-- Proved part (even for failing rotations): histories that never bootstrap over a populated store. -/
theorem C12_names_fresh_between_wipeouts_partial (cfg : Cfg) (hg : cfg.guard = true) (h : List Cmd)
    (hc : CleanRun cfg State.init h) :
    certificate (run cfg State.init h).ca (bump (run cfg State.init h).ca.primarySigning) = none ∧
    bump (run cfg State.init h).ca.primarySigning ∉ (run cfg State.init h).km.destroyed := by
  obtain ⟨hca, hkm⟩ := Inv_run cfg hg h State.init (Inv_init cfg) hc
  refine ⟨by simp [certificate, hca.kver_fresh], ?_⟩
  intro hmem
  obtain ⟨d1, d2⟩ := hkm.dfam _ hmem
  have := d2 (by rw [← d1]; rfl)
  simp only [bump_idx] at this
  omega

/-- D18 witness: `bootstrap; rotate; bootstrap --overwrite; rotate` creates `primarySigningKey_1` a second
    time without any wipeout in between. -/
theorem C12_finding_rebootstrap_name_reuse : ¬ C12_names_fresh_between_wipeouts := by
  intro hfull
  have h := hfull memCfg rfl rebootHistory noFlags ⟨"signB", none, 4000⟩ (by decide)
  revert h; decide

/-! ### no certificate object changes without overwrite -/

/-- gcsca (the authority with stored objects), after every history: a bootstrap or rotation without
    overwrite leaves every existing certificate object and the root object as they were. -/
theorem C12_no_clobber (cfg : Cfg) (hg : cfg.ca = .gcsca) (h : List Cmd) (c : Cmd)
    (hw : isWipeout c = false) (hf : c.flags.overwrite = false) :
    (∀ p x, get (run cfg State.init h).ca.objects p = some x → get (step cfg (run cfg State.init h) c).1.ca.objects p = some x) ∧
    (∀ r, (run cfg State.init h).ca.rootObj = some r → (step cfg (run cfg State.init h) c).1.ca.rootObj = some r) := by
  generalize run cfg State.init h = s
  have key : ∀ m : Mut, (∀ p x, get s.ca.objects p = some x → get (gcsFinalize cfg.guard c.flags s.ca m).1.objects p = some x) ∧
      (∀ r, s.ca.rootObj = some r → (gcsFinalize cfg.guard c.flags s.ca m).1.rootObj = some r) := by
    intro m
    obtain ⟨e1, e2⟩ := gcsFinalize_ext cfg.guard c.flags s.ca m
    refine ⟨e1 hf, ?_⟩
    intro r hr
    rcases e2 with e | ⟨r', _, _, e⟩
    · rw [e]; exact hr
    · rcases e with e | e
      · rw [hr] at e; cases e
      · rw [hf] at e; cases e
  cases c with
  | wipeout f a b => simp [isWipeout] at hw
  | bootstrap f a =>
    simp only [step, bootstrap]
    by_cases h1 : keyExists f s.km rootName = true
    · simp only [h1, if_true]; exact ⟨fun _ _ hx => hx, fun _ hx => hx⟩
    · simp only [h1]
      by_cases h2 : keyExists f (s.km.gen rootName) firstName = true
      · simp only [h2, if_true]; exact ⟨fun _ _ hx => hx, fun _ hx => hx⟩
      · simp only [h2]
        rcases bootCerts_gcs hg f a ((s.km.gen rootName).gen firstName) s.km.next (s.km.next + 1) s.ca with e | ⟨m, e⟩
        · simp only [Bool.false_eq_true, if_false]; rw [e]; exact ⟨fun _ _ hx => hx, fun _ hx => hx⟩
        · simp only [Bool.false_eq_true, if_false]; rw [e]; exact key m
  | rotate f a =>
    simp only [step]
    by_cases hb : cliBlocked cfg s.ca = true
    · simp only [hb, if_true]; exact ⟨fun _ _ hx => hx, fun _ hx => hx⟩
    · simp only [hb]
      cases hrs : resolveSerial s.ca a.serial with
      | none => exact ⟨fun _ _ hx => hx, fun _ hx => hx⟩
      | some n =>
        show (∀ p x, get s.ca.objects p = some x → get (rotateKey cfg f s a.cn n a.now).1.ca.objects p = some x) ∧
          (∀ r, s.ca.rootObj = some r → (rotateKey cfg f s a.cn n a.now).1.ca.rootObj = some r)
        rcases rotateKey_ca cfg f s a.cn n a.now with e | ⟨oc, e⟩
        · rw [e]; exact ⟨fun _ _ hx => hx, fun _ hx => hx⟩
        · rw [e]; simp only [caAfterRotate, hg]; exact key _

/-- FULL STATEMENT for memca (fails today, see C12_finding_rebootstrap_memca_clobber): memca has no
    overwrite check of its own. -/
def C12_no_clobber_memca : Prop :=
  ∀ (cfg : Cfg), cfg.guard = true → cfg.ca = .memca → ∀ (h : List Cmd) (c : Cmd), isWipeout c = false → c.flags.overwrite = false →
    ∀ p x, get (run cfg State.init h).ca.objects p = some x → get (step cfg (run cfg State.init h) c).1.ca.objects p = some x

/-- Proved part: histories (including the last command) that never bootstrap over a populated store:
    the rotated key's name is fresh, so its certificate replaces nothing. -/
theorem C12_no_clobber_memca_partial (cfg : Cfg) (hg : cfg.guard = true) (hm : cfg.ca = .memca) (h : List Cmd) (c : Cmd)
    (hc : CleanRun cfg State.init (h ++ [c])) (hw : isWipeout c = false)
    (p : ObjKey) (x : Cert) (hp : get (run cfg State.init h).ca.objects p = some x) :
    get (step cfg (run cfg State.init h) c).1.ca.objects p = some x := by
  have split : ∀ (l : List Cmd) (s : State), CleanRun cfg s (l ++ [c]) →
      CleanRun cfg s l ∧ (isBootstrap c = true → Clean (run cfg s l)) := by
    intro l
    induction l with
    | nil => intro s h2; exact ⟨trivial, h2.1⟩
    | cons d t ih =>
      intro s h2
      obtain ⟨i2, i3⟩ := ih _ h2.2
      exact ⟨⟨h2.1, i2⟩, i3⟩
  obtain ⟨hc', hcl⟩ := split h State.init hc
  obtain ⟨hca, _⟩ := Inv_run cfg hg h State.init (Inv_init cfg) hc'
  generalize run cfg State.init h = s at hp hcl hca ⊢
  cases c with
  | wipeout f a b => simp [isWipeout] at hw
  | bootstrap f a =>
    have := (hcl rfl).2.2
    rw [this] at hp; simp [CA.empty, get] at hp
  | rotate f a =>
    simp only [step]
    by_cases hb : cliBlocked cfg s.ca = true
    · simp only [hb, if_true]; exact hp
    · simp only [hb]
      cases hrs : resolveSerial s.ca a.serial with
      | none => exact hp
      | some n =>
        show get (rotateKey cfg f s a.cn n a.now).1.ca.objects p = some x
        rcases rotateKey_ca cfg f s a.cn n a.now with e | ⟨oc, e⟩
        · rw [e]; exact hp
        · rw [e]
          rcases caAfterRotate_shape (cfg := cfg) f oc hca.kver_fresh with e1 | ⟨_, e1⟩ | ⟨c, _, ⟨e1, _⟩ | ⟨_, _, hgcs, _⟩⟩
          · rw [e1]; exact hp
          · rw [e1]; exact hp
          · rw [e1]
            simp only [caWrite, defaultPath, hm]
            have hfresh : get s.ca.objects (.byName (bump s.ca.primarySigning)) = none := by
              cases ho : get s.ca.objects (.byName (bump s.ca.primarySigning)) with
              | none => rfl
              | some y =>
                have := hca.memObj hm (bump s.ca.primarySigning) (by simp [ho])
                rw [hca.kver_fresh] at this; simp at this
            have hne : p ≠ .byName (bump s.ca.primarySigning) := by
              intro e2; rw [e2, hfresh] at hp; cases hp
            rw [get_put_ne _ _ _ _ hne]; exact hp
          · rw [hm] at hgcs; cases hgcs

/-- D18 witness on memca: `bootstrap; wipeout keys; bootstrap` (no overwrite anywhere) replaces the
    recorded certificates. -/
theorem C12_finding_rebootstrap_memca_clobber : ¬ C12_no_clobber_memca := by
  intro hfull
  have h := hfull memCfg rfl rfl
    [.bootstrap noFlags ⟨"rootA", "signA", 1, 2, 1000⟩, .wipeout noFlags false true]
    (.bootstrap noFlags ⟨"rootA", "signA", 1, 2, 5000⟩) rfl rfl
    (.byName rootName) ⟨1, 1, "rootA", "rootA", 1, 0, 0, 0, true, 96, 13, 1000, 1000 + rootLifetime⟩ (by decide)
  revert h; decide

/-! ### wipeout -/

/-- After a successful `wipeout` of both the authority and the keys, from any history: no key version
    can sign, no certificate is recorded, stored or served. -/
theorem C12_wipeout_total (cfg : Cfg) (h : List Cmd) (f : Flags)
    (hok : (step cfg (run cfg State.init h) (.wipeout f true true)).2 = true) :
    (step cfg (run cfg State.init h) (.wipeout f true true)).1.km.live = [] ∧
    (∀ n, certificate (step cfg (run cfg State.init h) (.wipeout f true true)).1.ca n = none) ∧
    bundle cfg (step cfg (run cfg State.init h) (.wipeout f true true)).1.ca = none ∧
    (step cfg (run cfg State.init h) (.wipeout f true true)).1.ca.objects = [] := by
  generalize run cfg State.init h = s at hok ⊢
  simp only [step] at hok ⊢
  by_cases hb : cliBlocked cfg s.ca = true
  · simp [hb] at hok
  · simp only [hb]
    refine ⟨rfl, fun n => rfl, ?_, rfl⟩
    unfold bundle; cases cfg.ca <;> rfl

/-- `wipeout keys` alone leaves no key able to sign; `wipeout ca` alone leaves no certificate served. -/
theorem C12_wipeout_parts (cfg : Cfg) (h : List Cmd) (f : Flags) (c k : Bool)
    (hok : (step cfg (run cfg State.init h) (.wipeout f c k)).2 = true) :
    (k = true → (step cfg (run cfg State.init h) (.wipeout f c k)).1.km.live = []) ∧
    (c = true → (step cfg (run cfg State.init h) (.wipeout f c k)).1.ca = CA.empty) := by
  generalize run cfg State.init h = s at hok ⊢
  simp only [step] at hok ⊢
  by_cases hb : cliBlocked cfg s.ca = true
  · simp [hb] at hok
  · simp only [hb]
    exact ⟨fun e => by simp [wipeout, e, KM.wipe], fun e => by simp [wipeout, e]⟩

/-! ### non-vacuity -/

/-- bootstrap; rotate; rotate with the default names -/
def goodHistory : List Cmd :=
  [.bootstrap noFlags ⟨"GCE-cc-tcb-root", "GCE-uefi-signer", 1, 2, 1000⟩,
   .rotate noFlags ⟨"GCE-uefi-signer", none, 2000⟩, .rotate noFlags ⟨"GCE-uefi-signer", none, 3000⟩]

/-- The concrete history `bootstrap; rotate; rotate` meets every hypothesis used above (clean run,
    roles, successful rotations, a served root, three recorded signing certificates with serials 2, 3, 4
    of which only the last key can sign) on both authorities and both sequencings. -/
example : CleanRun memCfg State.init goodHistory ∧ CleanRun gcsCfg State.init goodHistory := by
  refine ⟨⟨fun _ => ?_, fun h => ?_, fun h => ?_, trivial⟩, ⟨fun _ => ?_, fun h => ?_, fun h => ?_, trivial⟩⟩ <;>
    first | (exact ⟨rfl, rfl, rfl⟩) | (simp [isBootstrap] at h)

example :
    (run memCfg State.init goodHistory).ca.primarySigning = ⟨"primarySigningKey", 2⟩ ∧
    ((run memCfg State.init goodHistory).ca.entries.map (·.1.show)) = ["root", "primarySigningKey", "primarySigningKey_1", "primarySigningKey_2"] ∧
    ((run gcsCfg State.init goodHistory).ca.objects.map (·.2.subjSerial)) = [1, 2, 3, 4] ∧
    ((run gcsCfg State.init goodHistory).km.live.map (·.1.show)) = ["root", "primarySigningKey_2"] ∧
    (run gcsCfg State.init goodHistory).km.destroyed.map (·.show) = ["primarySigningKey_1", "primarySigningKey"] ∧
    (bundle gcsCfg (run gcsCfg State.init goodHistory).ca).isSome = true ∧
    (step memCfg (run memCfg State.init goodHistory) (.rotate noFlags ⟨"GCE-uefi-signer", none, 4000⟩)).2 = true ∧
    (step gcsCfg (run gcsCfg State.init goodHistory) (.rotate noFlags ⟨"GCE-uefi-signer", some 9, 4000⟩)).2 = true ∧
    (step gcsCfg (run gcsCfg State.init goodHistory) (.wipeout noFlags true true)).2 = true := by
  decide

/-- C12_no_clobber is not vacuous: a rotation without overwrite onto an existing object name is refused
    and changes nothing; with overwrite it is refused as well when the object is the recorded certificate of
    another key version (here the first signing key's, serial 2); what overwrite does replace is a key
    version's OWN recorded object (a second bootstrap with overwrite replaces both certificates, without it
    is refused). -/
example :
    (step gcsCfg (run gcsCfg State.init goodHistory) (.rotate noFlags ⟨"GCE-uefi-signer", some 2, 4000⟩)).2 = false ∧
    (step gcsCfg (run gcsCfg State.init goodHistory) (.rotate owFlags ⟨"GCE-uefi-signer", some 2, 4000⟩)).2 = false ∧
    (step gcsCfgOld (run gcsCfgOld State.init goodHistory) (.rotate owFlags ⟨"GCE-uefi-signer", some 2, 4000⟩)).2 = true ∧
    (step gcsCfg (run gcsCfg State.init goodHistory) (.bootstrap noFlags ⟨"GCE-cc-tcb-root", "GCE-uefi-signer", 1, 2, 9000⟩)).2 = false ∧
    (step gcsCfg (run gcsCfg State.init goodHistory) (.bootstrap owFlags ⟨"GCE-cc-tcb-root", "GCE-uefi-signer", 1, 2, 9000⟩)).2 = true ∧
    ((step gcsCfg (run gcsCfg State.init goodHistory) (.bootstrap owFlags ⟨"GCE-cc-tcb-root", "GCE-uefi-signer", 1, 2, 9000⟩)).1.ca.objects.map (·.2.notBefore))
      = [9000, 9000, 2000, 3000] := by
  decide

/-- The partial theorems are not vacuous beyond the former `Roles` restriction: a clean run in which a
    rotated key is given the ROOT's common name (with a serial of its own) and a bootstrap uses one common
    name for both certificates. -/
example :
    CleanRun gcsCfg State.init
      [.bootstrap noFlags ⟨"same", "same", 1, 2, 1000⟩, .rotate noFlags ⟨"same", none, 2000⟩, .rotate ⟨false, true⟩ ⟨"same", some 1, 3000⟩] ∧
    (run gcsCfg State.init
      [.bootstrap noFlags ⟨"same", "same", 1, 2, 1000⟩, .rotate noFlags ⟨"same", none, 2000⟩, .rotate ⟨false, true⟩ ⟨"same", some 1, 3000⟩]).ca.primarySigning
      = ⟨"primarySigningKey", 1⟩ := by
  refine ⟨⟨fun _ => ⟨rfl, rfl, rfl⟩, fun h => by simp [isBootstrap] at h, fun h => by simp [isBootstrap] at h, trivial⟩, by decide⟩

end GceTcb.KeyHistory
