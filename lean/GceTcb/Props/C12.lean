import GceTcb.Proofs.KeyHistory
import GceTcb.Proofs.KeyHistoryKms
import GceTcb.Proofs.RotateKms
/-
C12 — Chain-of-trust invariants hold over every key-management history.
Property theorems only (model: Model/KeyHistory.lean, documented profiles: Spec/KeyHistory.lean,
lemmas and the invariants: Proofs/KeyHistory.lean).

All theorems quantify over every configuration `cfg` (memca | gcsca authority, memkm | localkm manager,
both step sequencings of rotate.Key, library or CLI entry) and over every command history `h`
(unbounded list; `run cfg State.init h` is the state after the history).

`cfg.guard = true` is gcsca.upload as it is after its two "fix:" commits (an object recorded for another
key version is refused; an existing object that keep_going left unwritten is not recorded); `guard = false`
is the upload of before, kept for the witness `C12_old_keep_going_records_root_cert`.

Full-strength and proved for ALL histories (both values of `guard`): C12_root_profile, C12_serial_succ,
C12_no_clobber (gcsca), C12_wipeout_total.  Four clauses fail on the current code for histories that
bootstrap over a populated store (D18 = known findings C12-K1…K4) — and only for those: their full
statements are the `def … : Prop` below, each with a proved witness `C12_finding_…` of its negation and a
proved `…_partial` theorem whose ONLY extra hypothesis is `CleanRun` (every bootstrap of the history runs
on an empty store).  The former second hypothesis `Roles` (root common names are not given to signing
keys; finding C12-K5 / D19) is gone: the repaired upload refuses the colliding object, and the
invariant no longer distinguishes certificate objects by their common name.
-/
namespace GceTcb.KeyHistory
open GceTcb.Gen

/-- The regenerated constants are the documented ones: 25-year root (25 × 365.24 days), five years
    plus one day for signing keys, certificate-signing / digital-signature usages, RSA-PSS with
    SHA-256, certificate serial = subject serial in both template paths, serial and name increments of 1. -/
theorem C12_consts :
    CertConsts.rootValidDays = 9131 ∧ CertConsts.signValidDays = 5 * 365 + 1 ∧ CertConsts.hoursPerDay = 24 ∧
    CertConsts.googleRootDays = CertConsts.rootValidDays ∧ CertConsts.googleSignDays = CertConsts.signValidDays ∧
    CertConsts.fromCertRootDays = CertConsts.rootValidDays ∧ CertConsts.fromCertSignDays = CertConsts.signValidDays ∧
    CertConsts.googleRootIsCA = true ∧ CertConsts.googleSignIsCA = false ∧
    CertConsts.kuCertSign = 32 ∧ CertConsts.kuDigitalSignature = 1 ∧ CertConsts.sigSHA256WithRSAPSS = 13 ∧
    CertConsts.googleRootKeyUsage &&& CertConsts.kuCertSign = CertConsts.kuCertSign ∧
    CertConsts.googleSignKeyUsage = CertConsts.kuDigitalSignature ∧
    CertConsts.googleSigAlg = CertConsts.sigSHA256WithRSAPSS ∧
    CertConsts.googleSerialIsSubject = true ∧ CertConsts.fromCertSerialIsSubject = true ∧
    CertConsts.nextSerialIncrement = 1 ∧ CertConsts.rotateDefaultIncrement = 1 ∧ CertConsts.bumpIncrement = 1 := by
  decide

/-! ### root certificate -/

/-- After any history, the root certificate the authority serves is a self-signed CA certificate with
    certificate-signing usage and the documented 25-year lifetime. -/
theorem C12_root_profile (cfg : Cfg) (h : List Cmd) (r : Cert)
    (hb : bundle cfg (run cfg State.init h).ca = some r) : RootProfile r :=
  RootInv_bundle (RootInv_run cfg h State.init (RootInv_empty cfg)) hb

/-! ### signing certificates -/

/-- FULL STATEMENT (fails today, see C12_finding_rebootstrap): after any history every certificate the
    authority records, other than the root's entry, has the signing profile and is issued by the served root. -/
def C12_signing_profile : Prop :=
  ∀ (cfg : Cfg), cfg.guard = true → ∀ (h : List Cmd) (n : KName) (c : Cert),
    certificate (run cfg State.init h).ca n = some c → n ≠ (run cfg State.init h).ca.primaryRoot →
    SignProfile c ∧ ∃ r, bundle cfg (run cfg State.init h).ca = some r ∧ IssuedBy r c

/-- Proved part: histories that never bootstrap over a populated store — with ANY common names, serial
    overrides, overwrite and keep_going flags.  Missing for the full statement: bootstrap over a populated
    store leaves the previous root's signing certificates recorded (D18). -/
theorem C12_signing_profile_partial (cfg : Cfg) (hg : cfg.guard = true) (h : List Cmd)
    (hc : CleanRun cfg State.init h) (n : KName) (c : Cert)
    (hn : certificate (run cfg State.init h).ca n = some c)
    (hroot : n ≠ (run cfg State.init h).ca.primaryRoot) :
    SignProfile c ∧ ∃ r, bundle cfg (run cfg State.init h).ca = some r ∧ IssuedBy r c := by
  obtain ⟨hca, _⟩ := Inv_run cfg hg h State.init (Inv_init cfg) hc
  unfold certificate at hn
  cases he : get (run cfg State.init h).ca.entries n with
  | none => simp [he] at hn
  | some p =>
    simp only [he] at hn
    have hne : n ≠ rootName := by
      rcases hca.rootOrEmpty with h1 | ⟨_, h1⟩
      · rw [h1] at hroot; exact hroot
      · rw [h1] at he; simp [get] at he
    exact hca.good n p c he hne hn

def memCfg : Cfg := ⟨.memca, .memkm, false, false, true⟩
def gcsCfg : Cfg := ⟨.gcsca, .memkm, true, false, true⟩
/-- gcsca with upload as it was before its two "fix:" commits -/
def gcsCfgOld : Cfg := ⟨.gcsca, .memkm, true, false, false⟩
def noFlags : Flags := ⟨false, false⟩
def owFlags : Flags := ⟨true, false⟩

/-- bootstrap; rotate; bootstrap --overwrite -/
def rebootHistory : List Cmd :=
  [.bootstrap noFlags ⟨"rootA", "signA", 1, 2, 1000⟩, .rotate noFlags ⟨"signA", none, 2000⟩,
   .bootstrap owFlags ⟨"rootB", "signB", 1, 2, 3000⟩]

/-- D18 witness: after `bootstrap; rotate; bootstrap --overwrite` the entry of the rotated key still
    carries the certificate issued by the previous root (signer key 0; the served root has key 3). -/
theorem C12_finding_rebootstrap : ¬ C12_signing_profile := by
  intro hfull
  have h := hfull memCfg rfl rebootHistory ⟨"primarySigningKey", 1⟩
    ⟨3, 3, "signA", "rootA", 1, 2, 0, 0, false, 1, 13, 2000, 2000 + signLifetime⟩ (by decide) (by decide)
  obtain ⟨_, r, hr, hi, _⟩ := h
  have hr' : bundle memCfg (run memCfg State.init rebootHistory).ca =
      some ⟨1, 1, "rootB", "rootB", 1, 3, 3, 3, true, 96, 13, 3000, 3000 + rootLifetime⟩ := by decide
  rw [hr'] at hr
  cases hr
  revert hi; decide

/-- bootstrap; rotate --keep_going with the root's common name and serial (gcsca) -/
def keepGoingHistory : List Cmd :=
  [.bootstrap noFlags ⟨"rootA", "signA", 1, 2, 1000⟩, .rotate ⟨false, true⟩ ⟨"rootA", some 1, 2000⟩]

/-- the clause of `C12_signing_profile` on one configuration and history -/
def SigningProfileOn (cfg : Cfg) (h : List Cmd) : Prop :=
  ∀ (n : KName) (c : Cert), certificate (run cfg State.init h).ca n = some c → n ≠ (run cfg State.init h).ca.primaryRoot →
    SignProfile c ∧ ∃ r, bundle cfg (run cfg State.init h).ca = some r ∧ IssuedBy r c

/-- **The old upload records the root certificate as a signing certificate** (finding C12-K5 / D19, repaired):
    on gcsca as it was BEFORE the fix, a rotation with keep_going, without overwrite, whose certificate would get
    the object name of the root's certificate is recorded WITHOUT being written — the new primary's entry then
    serves the root certificate, a CA certificate — although the history is a clean run.  On the repaired
    upload the same history satisfies the clause (instance of `C12_signing_profile_partial`), the rotation is
    refused and the primary stays `primarySigningKey`. -/
theorem C12_old_keep_going_records_root_cert :
    CleanRun gcsCfgOld State.init keepGoingHistory ∧ ¬ SigningProfileOn gcsCfgOld keepGoingHistory ∧
    CleanRun gcsCfg State.init keepGoingHistory ∧ SigningProfileOn gcsCfg keepGoingHistory ∧
    (run gcsCfg State.init keepGoingHistory).ca.primarySigning = firstName := by
  refine ⟨⟨fun _ => ⟨rfl, rfl, rfl⟩, fun h => by simp [isBootstrap] at h, trivial⟩, ?_,
    ⟨fun _ => ⟨rfl, rfl, rfl⟩, fun h => by simp [isBootstrap] at h, trivial⟩, ?_, by decide⟩
  · intro hfull
    have h := hfull ⟨"primarySigningKey", 1⟩
      ⟨1, 1, "rootA", "rootA", 1, 0, 0, 0, true, 96, 13, 1000, 1000 + rootLifetime⟩ (by decide) (by decide)
    have hca := h.1.1
    revert hca; decide
  · intro n c hn hr
    exact C12_signing_profile_partial gcsCfg rfl keepGoingHistory
      ⟨fun _ => ⟨rfl, rfl, rfl⟩, fun h => by simp [isBootstrap] at h, trivial⟩ n c hn hr

/-- … and the same object with `--overwrite` (the input class of C10's finding D22, here on the root's
    certificate object): before the fix the root key version's entry ends up serving a signing certificate;
    the repaired upload refuses, the root's entry keeps serving the root certificate. -/
theorem C12_old_overwrite_clobbers_root_entry :
    (certificate (run gcsCfgOld State.init
      [.bootstrap noFlags ⟨"rootA", "signA", 1, 2, 1000⟩, .rotate owFlags ⟨"rootA", some 1, 2000⟩]).ca rootName).map (·.isCA) = some false ∧
    (certificate (run gcsCfg State.init
      [.bootstrap noFlags ⟨"rootA", "signA", 1, 2, 1000⟩, .rotate owFlags ⟨"rootA", some 1, 2000⟩]).ca rootName).map (·.isCA) = some true ∧
    (step gcsCfg (run gcsCfg State.init [.bootstrap noFlags ⟨"rootA", "signA", 1, 2, 1000⟩])
      (.rotate owFlags ⟨"rootA", some 1, 2000⟩)).2 = false := by
  decide

/-! ### serial numbers -/

/-- Unless overridden (and unless keep_going lets Finalize skip the write), a successful rotation
    records for the new primary key version `BumpName(previous primary)` a certificate whose subject
    serial is one greater than its predecessor's and whose certificate serial equals its subject serial.
    Holds after every history. -/
theorem C12_serial_succ (cfg : Cfg) (h : List Cmd) (f : Flags) (a : RotArgs)
    (hs : a.serial = none) (hk : f.keepGoing = false)
    (hok : (step cfg (run cfg State.init h) (.rotate f a)).2 = true) :
    ∃ p c, certificate (run cfg State.init h).ca (run cfg State.init h).ca.primarySigning = some p ∧
      (step cfg (run cfg State.init h) (.rotate f a)).1.ca.primarySigning = bump (run cfg State.init h).ca.primarySigning ∧
      certificate (step cfg (run cfg State.init h) (.rotate f a)).1.ca
        (step cfg (run cfg State.init h) (.rotate f a)).1.ca.primarySigning = some c ∧
      c.subjSerial = p.subjSerial + 1 ∧ c.certSerial = c.subjSerial := by
  generalize run cfg State.init h = s at hok ⊢
  simp only [step] at hok ⊢
  by_cases hb : cliBlocked cfg s.ca = true
  · simp [hb] at hok
  · simp only [hb, Bool.false_eq_true, if_false] at hok ⊢
    rw [hs] at hok ⊢
    simp only [resolveSerial] at hok ⊢
    cases hp : certificate s.ca s.ca.primarySigning with
    | none => simp [hp] at hok
    | some p =>
      simp only [hp] at hok ⊢
      obtain ⟨c, hc, hfin, hst⟩ := rotateKey_ok hok
      obtain ⟨c1, c2, _⟩ := rotCert_fields hc
      obtain ⟨k1, k2⟩ := caAfterRotate_ok_nokg hfin hk
      refine ⟨p, c, rfl, ?_, ?_, ?_, ?_⟩
      · rw [hst]; exact k1
      · rw [hst]; simp only []; rw [k1]; exact k2
      · rw [c1]; rfl
      · rw [c2, c1]

/-- With an override the recorded subject serial (and certificate serial) is the override. -/
theorem C12_serial_override (cfg : Cfg) (h : List Cmd) (f : Flags) (a : RotArgs) (n : Nat)
    (hs : a.serial = some n) (hk : f.keepGoing = false)
    (hok : (step cfg (run cfg State.init h) (.rotate f a)).2 = true) :
    ∃ c, certificate (step cfg (run cfg State.init h) (.rotate f a)).1.ca
        (step cfg (run cfg State.init h) (.rotate f a)).1.ca.primarySigning = some c ∧
      c.subjSerial = n ∧ c.certSerial = n := by
  generalize run cfg State.init h = s at hok ⊢
  simp only [step] at hok ⊢
  by_cases hb : cliBlocked cfg s.ca = true
  · simp [hb] at hok
  · simp only [hb, Bool.false_eq_true, if_false] at hok ⊢
    rw [hs] at hok ⊢
    simp only [resolveSerial] at hok ⊢
    obtain ⟨c, hc, hfin, hst⟩ := rotateKey_ok hok
    obtain ⟨c1, c2, _⟩ := rotCert_fields hc
    obtain ⟨k1, k2⟩ := caAfterRotate_ok_nokg hfin hk
    refine ⟨c, ?_, c1, c2⟩
    rw [hst]; simp only []; rw [k1]; exact k2

/-! ### only the primary signing key can sign -/

/-- FULL STATEMENT (fails today, see C12_finding_rebootstrap_old_key): among the key versions the
    authority records a signing certificate for, only the current primary can sign. -/
def C12_only_primary_signs : Prop :=
  ∀ (cfg : Cfg), cfg.guard = true → ∀ (h : List Cmd) (n : KName) (c : Cert) (k : Nat),
    certificate (run cfg State.init h).ca n = some c → n ≠ (run cfg State.init h).ca.primaryRoot →
    get (run cfg State.init h).km.live n = some k → n = (run cfg State.init h).ca.primarySigning

/-- Proved part: histories that never bootstrap over a populated store — every recorded signing key
    version other than the primary was destroyed.  Missing: bootstrap over a populated store leaves
    the previous primary alive and recorded. -/
theorem C12_only_primary_signs_partial (cfg : Cfg) (hg : cfg.guard = true) (h : List Cmd)
    (hc : CleanRun cfg State.init h) (n : KName) (c : Cert) (k : Nat)
    (hn : certificate (run cfg State.init h).ca n = some c)
    (hroot : n ≠ (run cfg State.init h).ca.primaryRoot)
    (hl : get (run cfg State.init h).km.live n = some k) :
    n = (run cfg State.init h).ca.primarySigning := by
  obtain ⟨hca, hkm⟩ := Inv_run cfg hg h State.init (Inv_init cfg) hc
  have hsome : (get (run cfg State.init h).ca.entries n).isSome = true := by
    unfold certificate at hn
    cases he : get (run cfg State.init h).ca.entries n with
    | none => simp [he] at hn
    | some p => rfl
  have hne : n ≠ rootName := by
    rcases hca.rootOrEmpty with h1 | ⟨_, h1⟩
    · rw [h1] at hroot; exact hroot
    · rw [h1] at hsome; simp [get] at hsome
  by_cases e : n = (run cfg State.init h).ca.primarySigning
  · exact e
  · have := hkm.onlyPrimary n hsome hne e
    rw [this] at hl; cases hl

/-- D18 witness: after `bootstrap; rotate; bootstrap --overwrite` the old primary `primarySigningKey_1`
    is still recorded and can still sign, while the primary is `primarySigningKey`. -/
theorem C12_finding_rebootstrap_old_key : ¬ C12_only_primary_signs := by
  intro hfull
  have h := hfull memCfg rfl rebootHistory ⟨"primarySigningKey", 1⟩
    ⟨3, 3, "signA", "rootA", 1, 2, 0, 0, false, 1, 13, 2000, 2000 + signLifetime⟩ 2 (by decide) (by decide) (by decide)
  revert h; decide

/-! ### key-version names -/

/-- BumpName keeps the prefix and strictly increases the numeric suffix. -/
theorem C12_bump_increases (k : KName) : (bump k).base = k.base ∧ k.idx < (bump k).idx :=
  ⟨rfl, by simp [bump_idx]⟩

/-- FULL STATEMENT (fails today, see C12_finding_rebootstrap_name_reuse): the name a rotation creates
    was neither certified by the authority nor destroyed since the last key wipeout. -/
def C12_names_fresh_between_wipeouts : Prop :=
  ∀ (cfg : Cfg), cfg.guard = true → ∀ (h : List Cmd) (f : Flags) (a : RotArgs),
    (step cfg (run cfg State.init h) (.rotate f a)).2 = true →
    certificate (run cfg State.init h).ca (bump (run cfg State.init h).ca.primarySigning) = none ∧
    bump (run cfg State.init h).ca.primarySigning ∉ (run cfg State.init h).km.destroyed

/-- Proved part (even for failing rotations): histories that never bootstrap over a populated store. -/
theorem C12_names_fresh_between_wipeouts_partial (cfg : Cfg) (hg : cfg.guard = true) (h : List Cmd)
    (hc : CleanRun cfg State.init h) :
    certificate (run cfg State.init h).ca (bump (run cfg State.init h).ca.primarySigning) = none ∧
    bump (run cfg State.init h).ca.primarySigning ∉ (run cfg State.init h).km.destroyed := by
  obtain ⟨hca, hkm⟩ := Inv_run cfg hg h State.init (Inv_init cfg) hc
  refine ⟨by simp [certificate, hca.kver_fresh], ?_⟩
  intro hmem
  obtain ⟨d1, d2⟩ := hkm.dfam _ hmem
  have := d2 (by rw [← d1]; rfl)
  simp only [bump_idx] at this
  omega

/-- D18 witness: `bootstrap; rotate; bootstrap --overwrite; rotate` creates `primarySigningKey_1` a second
    time without any wipeout in between. -/
theorem C12_finding_rebootstrap_name_reuse : ¬ C12_names_fresh_between_wipeouts := by
  intro hfull
  have h := hfull memCfg rfl rebootHistory noFlags ⟨"signB", none, 4000⟩ (by decide)
  revert h; decide

/-! ### no certificate object changes without overwrite -/

/-- gcsca (the authority with stored objects), after every history: a bootstrap or rotation without
    overwrite leaves every existing certificate object and the root object as they were. -/
theorem C12_no_clobber (cfg : Cfg) (hg : cfg.ca = .gcsca) (h : List Cmd) (c : Cmd)
    (hw : isWipeout c = false) (hf : c.flags.overwrite = false) :
    (∀ p x, get (run cfg State.init h).ca.objects p = some x → get (step cfg (run cfg State.init h) c).1.ca.objects p = some x) ∧
    (∀ r, (run cfg State.init h).ca.rootObj = some r → (step cfg (run cfg State.init h) c).1.ca.rootObj = some r) := by
  generalize run cfg State.init h = s
  have key : ∀ m : Mut, (∀ p x, get s.ca.objects p = some x → get (gcsFinalize cfg.guard c.flags s.ca m).1.objects p = some x) ∧
      (∀ r, s.ca.rootObj = some r → (gcsFinalize cfg.guard c.flags s.ca m).1.rootObj = some r) := by
    intro m
    obtain ⟨e1, e2⟩ := gcsFinalize_ext cfg.guard c.flags s.ca m
    refine ⟨e1 hf, ?_⟩
    intro r hr
    rcases e2 with e | ⟨r', _, _, e⟩
    · rw [e]; exact hr
    · rcases e with e | e
      · rw [hr] at e; cases e
      · rw [hf] at e; cases e
  cases c with
  | wipeout f a b => simp [isWipeout] at hw
  | bootstrap f a =>
    simp only [step, bootstrap]
    by_cases h1 : keyExists f s.km rootName = true
    · simp only [h1, if_true]; exact ⟨fun _ _ hx => hx, fun _ hx => hx⟩
    · simp only [h1]
      by_cases h2 : keyExists f (s.km.gen rootName) firstName = true
      · simp only [h2, if_true]; exact ⟨fun _ _ hx => hx, fun _ hx => hx⟩
      · simp only [h2]
        rcases bootCerts_gcs hg f a ((s.km.gen rootName).gen firstName) s.km.next (s.km.next + 1) s.ca with e | ⟨m, e⟩
        · simp only [Bool.false_eq_true, if_false]; rw [e]; exact ⟨fun _ _ hx => hx, fun _ hx => hx⟩
        · simp only [Bool.false_eq_true, if_false]; rw [e]; exact key m
  | rotate f a =>
    simp only [step]
    by_cases hb : cliBlocked cfg s.ca = true
    · simp only [hb, if_true]; exact ⟨fun _ _ hx => hx, fun _ hx => hx⟩
    · simp only [hb]
      cases hrs : resolveSerial s.ca a.serial with
      | none => exact ⟨fun _ _ hx => hx, fun _ hx => hx⟩
      | some n =>
        show (∀ p x, get s.ca.objects p = some x → get (rotateKey cfg f s a.cn n a.now).1.ca.objects p = some x) ∧
          (∀ r, s.ca.rootObj = some r → (rotateKey cfg f s a.cn n a.now).1.ca.rootObj = some r)
        rcases rotateKey_ca cfg f s a.cn n a.now with e | ⟨oc, e⟩
        · rw [e]; exact ⟨fun _ _ hx => hx, fun _ hx => hx⟩
        · rw [e]; simp only [caAfterRotate, hg]; exact key _

/-- FULL STATEMENT for memca (fails today, see C12_finding_rebootstrap_memca_clobber): memca has no
    overwrite check of its own. -/
def C12_no_clobber_memca : Prop :=
  ∀ (cfg : Cfg), cfg.guard = true → cfg.ca = .memca → ∀ (h : List Cmd) (c : Cmd), isWipeout c = false → c.flags.overwrite = false →
    ∀ p x, get (run cfg State.init h).ca.objects p = some x → get (step cfg (run cfg State.init h) c).1.ca.objects p = some x

/-- Proved part: histories (including the last command) that never bootstrap over a populated store:
    the rotated key's name is fresh, so its certificate replaces nothing. -/
theorem C12_no_clobber_memca_partial (cfg : Cfg) (hg : cfg.guard = true) (hm : cfg.ca = .memca) (h : List Cmd) (c : Cmd)
    (hc : CleanRun cfg State.init (h ++ [c])) (hw : isWipeout c = false)
    (p : ObjKey) (x : Cert) (hp : get (run cfg State.init h).ca.objects p = some x) :
    get (step cfg (run cfg State.init h) c).1.ca.objects p = some x := by
  have split : ∀ (l : List Cmd) (s : State), CleanRun cfg s (l ++ [c]) →
      CleanRun cfg s l ∧ (isBootstrap c = true → Clean (run cfg s l)) := by
    intro l
    induction l with
    | nil => intro s h2; exact ⟨trivial, h2.1⟩
    | cons d t ih =>
      intro s h2
      obtain ⟨i2, i3⟩ := ih _ h2.2
      exact ⟨⟨h2.1, i2⟩, i3⟩
  obtain ⟨hc', hcl⟩ := split h State.init hc
  obtain ⟨hca, _⟩ := Inv_run cfg hg h State.init (Inv_init cfg) hc'
  generalize run cfg State.init h = s at hp hcl hca ⊢
  cases c with
  | wipeout f a b => simp [isWipeout] at hw
  | bootstrap f a =>
    have := (hcl rfl).2.2
    rw [this] at hp; simp [CA.empty, get] at hp
  | rotate f a =>
    simp only [step]
    by_cases hb : cliBlocked cfg s.ca = true
    · simp only [hb, if_true]; exact hp
    · simp only [hb]
      cases hrs : resolveSerial s.ca a.serial with
      | none => exact hp
      | some n =>
        show get (rotateKey cfg f s a.cn n a.now).1.ca.objects p = some x
        rcases rotateKey_ca cfg f s a.cn n a.now with e | ⟨oc, e⟩
        · rw [e]; exact hp
        · rw [e]
          rcases caAfterRotate_shape (cfg := cfg) f oc hca.kver_fresh with e1 | ⟨_, e1⟩ | ⟨c, _, ⟨e1, _⟩ | ⟨_, _, hgcs, _⟩⟩
          · rw [e1]; exact hp
          · rw [e1]; exact hp
          · rw [e1]
            simp only [caWrite, defaultPath, hm]
            have hfresh : get s.ca.objects (.byName (bump s.ca.primarySigning)) = none := by
              cases ho : get s.ca.objects (.byName (bump s.ca.primarySigning)) with
              | none => rfl
              | some y =>
                have := hca.memObj hm (bump s.ca.primarySigning) (by simp [ho])
                rw [hca.kver_fresh] at this; simp at this
            have hne : p ≠ .byName (bump s.ca.primarySigning) := by
              intro e2; rw [e2, hfresh] at hp; cases hp
            rw [get_put_ne _ _ _ _ hne]; exact hp
          · rw [hm] at hgcs; cases hgcs

/-- D18 witness on memca: `bootstrap; wipeout keys; bootstrap` (no overwrite anywhere) replaces the
    recorded certificates. -/
theorem C12_finding_rebootstrap_memca_clobber : ¬ C12_no_clobber_memca := by
  intro hfull
  have h := hfull memCfg rfl rfl
    [.bootstrap noFlags ⟨"rootA", "signA", 1, 2, 1000⟩, .wipeout noFlags false true]
    (.bootstrap noFlags ⟨"rootA", "signA", 1, 2, 5000⟩) rfl rfl
    (.byName rootName) ⟨1, 1, "rootA", "rootA", 1, 0, 0, 0, true, 96, 13, 1000, 1000 + rootLifetime⟩ (by decide)
  revert h; decide

/-! ### wipeout -/

/-- After a successful `wipeout` of both the authority and the keys, from any history: no key version
    can sign, no certificate is recorded, stored or served. -/
theorem C12_wipeout_total (cfg : Cfg) (h : List Cmd) (f : Flags)
    (hok : (step cfg (run cfg State.init h) (.wipeout f true true)).2 = true) :
    (step cfg (run cfg State.init h) (.wipeout f true true)).1.km.live = [] ∧
    (∀ n, certificate (step cfg (run cfg State.init h) (.wipeout f true true)).1.ca n = none) ∧
    bundle cfg (step cfg (run cfg State.init h) (.wipeout f true true)).1.ca = none ∧
    (step cfg (run cfg State.init h) (.wipeout f true true)).1.ca.objects = [] := by
  generalize run cfg State.init h = s at hok ⊢
  simp only [step] at hok ⊢
  by_cases hb : cliBlocked cfg s.ca = true
  · simp [hb] at hok
  · simp only [hb]
    refine ⟨rfl, fun n => rfl, ?_, rfl⟩
    unfold bundle; cases cfg.ca <;> rfl

/-- `wipeout keys` alone leaves no key able to sign; `wipeout ca` alone leaves no certificate served. -/
theorem C12_wipeout_parts (cfg : Cfg) (h : List Cmd) (f : Flags) (c k : Bool)
    (hok : (step cfg (run cfg State.init h) (.wipeout f c k)).2 = true) :
    (k = true → (step cfg (run cfg State.init h) (.wipeout f c k)).1.km.live = []) ∧
    (c = true → (step cfg (run cfg State.init h) (.wipeout f c k)).1.ca = CA.empty) := by
  generalize run cfg State.init h = s at hok ⊢
  simp only [step] at hok ⊢
  by_cases hb : cliBlocked cfg s.ca = true
  · simp [hb] at hok
  · simp only [hb]
    exact ⟨fun e => by simp [wipeout, e, KM.wipe], fun e => by simp [wipeout, e]⟩

/-! ### non-vacuity -/

/-- bootstrap; rotate; rotate with the default names -/
def goodHistory : List Cmd :=
  [.bootstrap noFlags ⟨"GCE-cc-tcb-root", "GCE-uefi-signer", 1, 2, 1000⟩,
   .rotate noFlags ⟨"GCE-uefi-signer", none, 2000⟩, .rotate noFlags ⟨"GCE-uefi-signer", none, 3000⟩]

/-- The concrete history `bootstrap; rotate; rotate` meets every hypothesis used above (clean run,
    roles, successful rotations, a served root, three recorded signing certificates with serials 2, 3, 4
    of which only the last key can sign) on both authorities and both sequencings. -/
example : CleanRun memCfg State.init goodHistory ∧ CleanRun gcsCfg State.init goodHistory := by
  refine ⟨⟨fun _ => ?_, fun h => ?_, fun h => ?_, trivial⟩, ⟨fun _ => ?_, fun h => ?_, fun h => ?_, trivial⟩⟩ <;>
    first | (exact ⟨rfl, rfl, rfl⟩) | (simp [isBootstrap] at h)

example :
    (run memCfg State.init goodHistory).ca.primarySigning = ⟨"primarySigningKey", 2⟩ ∧
    ((run memCfg State.init goodHistory).ca.entries.map (·.1.show)) = ["root", "primarySigningKey", "primarySigningKey_1", "primarySigningKey_2"] ∧
    ((run gcsCfg State.init goodHistory).ca.objects.map (·.2.subjSerial)) = [1, 2, 3, 4] ∧
    ((run gcsCfg State.init goodHistory).km.live.map (·.1.show)) = ["root", "primarySigningKey_2"] ∧
    (run gcsCfg State.init goodHistory).km.destroyed.map (·.show) = ["primarySigningKey_1", "primarySigningKey"] ∧
    (bundle gcsCfg (run gcsCfg State.init goodHistory).ca).isSome = true ∧
    (step memCfg (run memCfg State.init goodHistory) (.rotate noFlags ⟨"GCE-uefi-signer", none, 4000⟩)).2 = true ∧
    (step gcsCfg (run gcsCfg State.init goodHistory) (.rotate noFlags ⟨"GCE-uefi-signer", some 9, 4000⟩)).2 = true ∧
    (step gcsCfg (run gcsCfg State.init goodHistory) (.wipeout noFlags true true)).2 = true := by
  decide

/-- C12_no_clobber is not vacuous: a rotation without overwrite onto an existing object name is refused
    and changes nothing; with overwrite it is refused as well when the object is the recorded certificate of
    another key version (here the first signing key's, serial 2); what overwrite does replace is a key
    version's OWN recorded object (a second bootstrap with overwrite replaces both certificates, without it
    is refused). -/
example :
    (step gcsCfg (run gcsCfg State.init goodHistory) (.rotate noFlags ⟨"GCE-uefi-signer", some 2, 4000⟩)).2 = false ∧
    (step gcsCfg (run gcsCfg State.init goodHistory) (.rotate owFlags ⟨"GCE-uefi-signer", some 2, 4000⟩)).2 = false ∧
    (step gcsCfgOld (run gcsCfgOld State.init goodHistory) (.rotate owFlags ⟨"GCE-uefi-signer", some 2, 4000⟩)).2 = true ∧
    (step gcsCfg (run gcsCfg State.init goodHistory) (.bootstrap noFlags ⟨"GCE-cc-tcb-root", "GCE-uefi-signer", 1, 2, 9000⟩)).2 = false ∧
    (step gcsCfg (run gcsCfg State.init goodHistory) (.bootstrap owFlags ⟨"GCE-cc-tcb-root", "GCE-uefi-signer", 1, 2, 9000⟩)).2 = true ∧
    ((step gcsCfg (run gcsCfg State.init goodHistory) (.bootstrap owFlags ⟨"GCE-cc-tcb-root", "GCE-uefi-signer", 1, 2, 9000⟩)).1.ca.objects.map (·.2.notBefore))
      = [9000, 9000, 2000, 3000] := by
  decide

/-- The partial theorems are not vacuous beyond the former `Roles` restriction: a clean run in which a
    rotated key is given the ROOT's common name (with a serial of its own) and a bootstrap uses one common
    name for both certificates. -/
example :
    CleanRun gcsCfg State.init
      [.bootstrap noFlags ⟨"same", "same", 1, 2, 1000⟩, .rotate noFlags ⟨"same", none, 2000⟩, .rotate ⟨false, true⟩ ⟨"same", some 1, 3000⟩] ∧
    (run gcsCfg State.init
      [.bootstrap noFlags ⟨"same", "same", 1, 2, 1000⟩, .rotate noFlags ⟨"same", none, 2000⟩, .rotate ⟨false, true⟩ ⟨"same", some 1, 3000⟩]).ca.primarySigning
      = ⟨"primarySigningKey", 1⟩ := by
  refine ⟨⟨fun _ => ⟨rfl, rfl, rfl⟩, fun h => by simp [isBootstrap] at h, fun h => by simp [isBootstrap] at h, trivial⟩, by decide⟩


/-! ## The Cloud KMS key manager (keys/gcpkms) with gcsca

Model: Model/KeyHistoryKms.lean (`kStep`, `kRun`); the certificate authority, the certificate records and
sops.GoogleCertificateTemplate are those of the theorems above (`caCfg` = gcsca with the repaired upload).
All theorems quantify over every pair of cryptoKey ids `cfg` (root ≠ signing where stated), every history `h`
of commands — each with its own Cloud KMS environment (generation delay, expiring context) and, for
bootstrap, either visiting order of gcsca.Finalize's certificate map — and external events (generation
completes, a version is disabled, destroy-scheduled versions are destroyed).

Proved for ALL histories: C12_kms_root_profile, C12_kms_serial_succ / _override, C12_kms_rotation_retires_previous,
C12_kms_names_fresh (version numbers are never handed out twice: stronger than "between wipeouts"),
C12_kms_no_clobber.  Signing profile and only-the-primary-signs fail for histories that bootstrap over a
NON-EMPTY CERTIFICATE STORE (C12-K7 and the Cloud KMS forms of K1 / K2) and only for those: `CleanRunK`.  Wipeout
totality fails for a version that is PENDING_GENERATION during the wipeout (C12-K6) and only for those:
`NoPending`, which every history without an expiring context has (`C12_kms_no_deadline_no_pending`).

What "can sign" means on Cloud KMS: `Svc.signer? n` — GetPublicKey / AsymmetricSign answer for version `n`, i.e. the
version is ENABLED.  Cloud KMS does not consult the manifest: an ENABLED version signs whether or not the
authority records it.  The clause "only the current primary signing key can sign" is read, as for the nonprod
managers, over the key versions the authority RECORDS (a signature of an unrecorded version has no certificate
and so no chain to the root): `C12_kms_only_primary_signs_partial`.  Against DestroyKeyVersion it says: a
successful rotation leaves the previous primary DESTROY_SCHEDULED (`C12_kms_rotation_retires_previous`, all
histories).  A rotation that fails after CreateCryptoKeyVersion leaves its new version behind — ENABLED or
PENDING_GENERATION — and nothing but `wipeout keys` ever destroys it (`C12_kms_leftover_enabled`); such a version is
never recorded (`C12_kms_enabled_nonprimary_unrecorded`), the nonprod managers behave the same way, and it is
not a violation of the property as read; it is a live-key leak worth a cleanup step in rotate.Key.
-/
open KmsH

/-- The regenerated facts the Cloud KMS theorems rest on: rotate.Key runs its steps in sequence (Finalize before
    DestroyKeyVersion), and gcpkms.destroyableState sends exactly ENABLED and DISABLED to DestroyCryptoKeyVersion. -/
theorem C12_kms_consts :
    CertConsts.rotateSequential = true ∧
    GceTcb.Kms.destroyableState VSt.enabled.code = some true ∧
    GceTcb.Kms.destroyableState VSt.disabled.code = some true ∧
    GceTcb.Kms.destroyableState VSt.scheduled.code = some false ∧
    GceTcb.Kms.destroyableState VSt.destroyed.code = some false ∧
    (∀ g, GceTcb.Kms.destroyableState (VSt.pending g).code = some false) := by
  refine ⟨by decide, by decide, by decide, by decide, by decide, fun _ => ?_⟩
  show GceTcb.Kms.destroyableState Gen.Kms.stPendingGeneration = some false
  decide

/-- **Root profile, all histories.**  The root certificate the authority serves is a self-signed CA certificate
    with certificate-signing usage and the 25-year lifetime. -/
theorem C12_kms_root_profile (cfg : KCfg) (h : List KCmd) (r : Cert)
    (hb : bundle caCfg (kRun cfg KState.init h).ca = some r) : RootProfile r :=
  (InvU_run cfg h _ InvU_init).root r hb

/-- FULL STATEMENT (fails today, see C12_kms_finding_stale_root_entry): every certificate the authority records
    other than the primary root's has the signing profile and is issued by the served root. -/
def C12_kms_signing_profile : Prop :=
  ∀ (cfg : KCfg), cfg.rootKey ≠ cfg.signKey → ∀ (h : List KCmd) (n : KName) (c : Cert),
    certificate (kRun cfg KState.init h).ca n = some c → n ≠ (kRun cfg KState.init h).ca.primaryRoot →
    SignProfile c ∧ ∃ r, bundle caCfg (kRun cfg KState.init h).ca = some r ∧ IssuedBy r c

/-- Proved part: histories whose bootstraps all start from an empty certificate store — whatever Cloud KMS holds
    (versions of earlier lives, leftovers), with any names, serials, flags, environments, events.  Missing:
    a bootstrap over a populated store leaves entries of the previous chain recorded (C12-K7, K1). -/
theorem C12_kms_signing_profile_partial (cfg : KCfg) (hne : cfg.rootKey ≠ cfg.signKey) (h : List KCmd)
    (hc : CleanRunK cfg KState.init h) (n : KName) (c : Cert)
    (hn : certificate (kRun cfg KState.init h).ca n = some c)
    (hroot : n ≠ (kRun cfg KState.init h).ca.primaryRoot) :
    SignProfile c ∧ ∃ r, bundle caCfg (kRun cfg KState.init h).ca = some r ∧ IssuedBy r c := by
  obtain ⟨_, hk⟩ := InvK_run cfg hne h _ InvU_init InvK_init hc
  unfold certificate at hn
  cases he : get (kRun cfg KState.init h).ca.entries n with
  | none => simp [he] at hn
  | some p => simp only [he] at hn; exact hk.good n p c he hroot hn

def kmsCfg : KCfg := ⟨"rk", "sk"⟩
def env0 : Env := { gen := 0, deadline := false }
def kgFlags : Flags := ⟨false, true⟩

/-- bootstrap; wipeout keys; bootstrap --keep_going -/
def kmsRebootHistory : List KCmd :=
  [.bootstrap noFlags ⟨"rootA", "signA", 1, 2, 1000⟩ env0 false, .wipeout noFlags false true,
   .bootstrap kgFlags ⟨"rootA", "signA", 7, 8, 2000⟩ env0 false]

/-- C12-K7 witness: after `bootstrap; wipeout keys; bootstrap --keep_going` the root cryptoKey has version 2,
    which is the primary root, and the entry of version 1 — a CA certificate — is still recorded. -/
theorem C12_kms_finding_stale_root_entry : ¬ C12_kms_signing_profile := by
  intro hfull
  have h := hfull kmsCfg (by decide) kmsRebootHistory ⟨"rk", 1⟩
    ⟨1, 1, "rootA", "rootA", 1, 0, 0, 0, true, 96, 13, 1000, 1000 + rootLifetime⟩ (by decide) (by decide)
  have hca := h.1.1
  revert hca; decide

/-! ### serial numbers -/

/-- Unless overridden (and unless keep_going lets Finalize skip the write), a successful rotation records for
    the new primary — the version Cloud KMS just numbered — a certificate whose subject serial is one greater
    than its predecessor's and whose certificate serial equals its subject serial.  All histories. -/
theorem C12_kms_serial_succ (cfg : KCfg) (h : List KCmd) (f : Flags) (a : RotArgs) (e : Env)
    (hs : a.serial = none) (hk : f.keepGoing = false)
    (hok : (kStep cfg (kRun cfg KState.init h) (.rotate f a e)).2 = true) :
    ∃ p c, certificate (kRun cfg KState.init h).ca (kRun cfg KState.init h).ca.primarySigning = some p ∧
      (kStep cfg (kRun cfg KState.init h) (.rotate f a e)).1.ca.primarySigning =
        (kRun cfg KState.init h).svc.nextName cfg.signKey ∧
      certificate (kStep cfg (kRun cfg KState.init h) (.rotate f a e)).1.ca
        (kStep cfg (kRun cfg KState.init h) (.rotate f a e)).1.ca.primarySigning = some c ∧
      c.subjSerial = p.subjSerial + 1 ∧ c.certSerial = c.subjSerial := by
  generalize kRun cfg KState.init h = s at hok ⊢
  simp only [kStep] at hok ⊢
  rw [hs] at hok ⊢
  simp only [resolveSerial] at hok ⊢
  cases hp : certificate s.ca s.ca.primarySigning with
  | none => simp [hp] at hok
  | some p =>
    simp only [hp] at hok ⊢
    rcases kRotate_shape cfg f e s a.cn (p.subjSerial + CertConsts.rotateDefaultIncrement) a.now with
      ⟨_, e2, _⟩ | ⟨c, _, _, _, h4, h5, h6, _⟩
    · rw [e2] at hok; cases hok
    · obtain ⟨_, _, _, _, _, c5, c6, _⟩ := kRotCert_some h4
      obtain ⟨k1, k2⟩ := caAfterRotate_ok_nokg h5 hk
      refine ⟨p, c, rfl, ?_, ?_, ?_, ?_⟩
      · rw [h6]; exact k1
      · rw [h6, k1]; exact k2
      · rw [c5]; rfl
      · rw [c6, c5]

/-- With an override the recorded subject serial (and certificate serial) is the override. -/
theorem C12_kms_serial_override (cfg : KCfg) (h : List KCmd) (f : Flags) (a : RotArgs) (e : Env) (n : Nat)
    (hs : a.serial = some n) (hk : f.keepGoing = false)
    (hok : (kStep cfg (kRun cfg KState.init h) (.rotate f a e)).2 = true) :
    ∃ c, certificate (kStep cfg (kRun cfg KState.init h) (.rotate f a e)).1.ca
        (kStep cfg (kRun cfg KState.init h) (.rotate f a e)).1.ca.primarySigning = some c ∧
      c.subjSerial = n ∧ c.certSerial = n := by
  generalize kRun cfg KState.init h = s at hok ⊢
  simp only [kStep] at hok ⊢
  rw [hs] at hok ⊢
  simp only [resolveSerial] at hok ⊢
  rcases kRotate_shape cfg f e s a.cn n a.now with ⟨_, e2, _⟩ | ⟨c, _, _, _, h4, h5, h6, _⟩
  · rw [e2] at hok; cases hok
  · obtain ⟨_, _, _, _, _, c5, c6, _⟩ := kRotCert_some h4
    obtain ⟨k1, k2⟩ := caAfterRotate_ok_nokg h5 hk
    exact ⟨c, by rw [h6, k1]; exact k2, c5, c6⟩

/-! ### only the primary signing key can sign -/

/-- FULL STATEMENT (fails today, see C12_kms_finding_rebootstrap_old_key): among the key versions the authority
    records, other than the primary root, only the primary signing key version is ENABLED. -/
def C12_kms_only_primary_signs : Prop :=
  ∀ (cfg : KCfg), cfg.rootKey ≠ cfg.signKey → ∀ (h : List KCmd) (n : KName) (c : Cert) (k : Nat),
    certificate (kRun cfg KState.init h).ca n = some c → n ≠ (kRun cfg KState.init h).ca.primaryRoot →
    (kRun cfg KState.init h).svc.signer? n = some k → n = (kRun cfg KState.init h).ca.primarySigning

/-- Proved part: histories whose bootstraps all start from an empty certificate store: every recorded
    signing-key version other than the primary is neither ENABLED nor PENDING_GENERATION — it went through
    DestroyCryptoKeyVersion, or was disabled and never re-enabled. -/
theorem C12_kms_only_primary_signs_partial (cfg : KCfg) (hne : cfg.rootKey ≠ cfg.signKey) (h : List KCmd)
    (hc : CleanRunK cfg KState.init h) (n : KName) (c : Cert) (k : Nat)
    (hn : certificate (kRun cfg KState.init h).ca n = some c)
    (hroot : n ≠ (kRun cfg KState.init h).ca.primaryRoot)
    (hl : (kRun cfg KState.init h).svc.signer? n = some k) :
    n = (kRun cfg KState.init h).ca.primarySigning := by
  obtain ⟨_, hk⟩ := InvK_run cfg hne h _ InvU_init InvK_init hc
  have hrec : Recorded (kRun cfg KState.init h).ca n := by
    unfold certificate at hn
    unfold Recorded
    cases he : get (kRun cfg KState.init h).ca.entries n with
    | none => simp [he] at hn
    | some p => rfl
  by_cases e : n = (kRun cfg KState.init h).ca.primarySigning
  · exact e
  · have := hk.onlyPrimary n hrec hroot e
    rw [(signer?_usable' hl).2] at this; cases this

/-- … equivalently: an ENABLED version other than the two primaries has no certificate on record. -/
theorem C12_kms_enabled_nonprimary_unrecorded (cfg : KCfg) (hne : cfg.rootKey ≠ cfg.signKey) (h : List KCmd)
    (hc : CleanRunK cfg KState.init h) (n : KName) (k : Nat)
    (hl : (kRun cfg KState.init h).svc.signer? n = some k)
    (hroot : n ≠ (kRun cfg KState.init h).ca.primaryRoot) (hps : n ≠ (kRun cfg KState.init h).ca.primarySigning) :
    certificate (kRun cfg KState.init h).ca n = none := by
  cases hcert : certificate (kRun cfg KState.init h).ca n with
  | none => rfl
  | some c => exact absurd (C12_kms_only_primary_signs_partial cfg hne h hc n c k hcert hroot hl) hps

/-- bootstrap; a rotation refused by Finalize (its serial is the first signing key's: version 2 stays ENABLED,
    unrecorded); a rotation (version 3 primary, version 1 destroyed); bootstrap --keep_going over the populated
    store: it adopts the FIRST enabled version, 2, and version 3 stays recorded and ENABLED. -/
def kmsOldKeyHistory : List KCmd :=
  [.bootstrap noFlags ⟨"rootA", "signA", 1, 2, 1000⟩ env0 false, .rotate noFlags ⟨"signA", some 2, 2000⟩ env0,
   .rotate noFlags ⟨"signA", none, 3000⟩ env0, .bootstrap kgFlags ⟨"rootA", "signA", 1, 9, 4000⟩ env0 false]

/-- Witness (the Cloud KMS form of C12-K2): a bootstrap over a populated store leaves the previous primary
    recorded and ENABLED beside the new one. -/
theorem C12_kms_finding_rebootstrap_old_key : ¬ C12_kms_only_primary_signs := by
  intro hfull
  have h := hfull kmsCfg (by decide) kmsOldKeyHistory ⟨"sk", 3⟩
    ⟨3, 3, "signA", "rootA", 1, 3, 0, 0, false, 1, 13, 3000, 3000 + signLifetime⟩ 3 (by decide) (by decide) (by decide)
  revert h; decide

/-- **A successful rotation retires the previous primary — all histories.**  When rotate.Key returns without
    error and there was a primary signing key version, that version is DESTROY_SCHEDULED afterwards (it was
    ENABLED or DISABLED and DestroyCryptoKeyVersion accepted it) and cannot sign. -/
theorem C12_kms_rotation_retires_previous (cfg : KCfg) (h : List KCmd) (f : Flags) (a : RotArgs) (e : Env)
    (hok : (kStep cfg (kRun cfg KState.init h) (.rotate f a e)).2 = true)
    (hps : (kRun cfg KState.init h).ca.primarySigning ≠ noName) :
    ((kStep cfg (kRun cfg KState.init h) (.rotate f a e)).1.svc.ver? (kRun cfg KState.init h).ca.primarySigning).map (·.st)
      = some .scheduled ∧
    (kStep cfg (kRun cfg KState.init h) (.rotate f a e)).1.svc.signer? (kRun cfg KState.init h).ca.primarySigning = none := by
  generalize kRun cfg KState.init h = s at hok hps ⊢
  simp only [kStep] at hok ⊢
  cases hr : resolveSerial s.ca a.serial with
  | none => simp [hr] at hok
  | some n =>
    simp only [hr] at hok ⊢
    rcases kRotate_shape cfg f e s a.cn n a.now with ⟨_, e2, _⟩ | ⟨c, _, _, _, _, _, _, h7⟩
    · rw [e2] at hok; cases hok
    · rcases h7 with ⟨e0, _, _⟩ | ⟨_, e2, e3⟩
      · exact absurd e0 hps
      · rw [e3] at hok
        obtain ⟨d1, d2⟩ := (destroy_spec (rotSvc cfg e s) s.ca.primarySigning).2.1 hok
        have hhas : ((rotSvc cfg e s).destroy s.ca.primarySigning).1.has s.ca.primarySigning = true :=
          (((destroy_spec (rotSvc cfg e s) s.ca.primarySigning).1).1 _ d1).1
        rw [e2]
        have hv := ver?_of_has hhas
        refine ⟨by rw [hv]; simp [d2], ?_⟩
        unfold Svc.signer?
        rw [hv]
        cases hx : ((rotSvc cfg e s).destroy s.ca.primarySigning).1.ver s.ca.primarySigning with
        | mk st m =>
          rw [hx] at d2; simp only at d2; subst d2; rfl

/-- bootstrap; a rotation whose serial collides with the first signing certificate: Finalize refuses -/
def kmsLeftoverHistory : List KCmd :=
  [.bootstrap noFlags ⟨"rootA", "signA", 1, 2, 1000⟩ env0 false, .rotate noFlags ⟨"signA", some 2, 2000⟩ env0]

/-- **Leftovers of failed attempts stay ENABLED** (not a violation as the clause is read; a live-key leak): the
    refused rotation of a clean run leaves version 2 of the signing cryptoKey ENABLED, able to sign, unrecorded;
    the primary is still version 1; a later successful rotation creates version 3, retires version 1 and leaves
    version 2 as it is; `wipeout keys` destroys it. -/
theorem C12_kms_leftover_enabled :
    CleanRunK kmsCfg KState.init kmsLeftoverHistory ∧
    (kRun kmsCfg KState.init kmsLeftoverHistory).svc.signer? ⟨"sk", 2⟩ = some 2 ∧
    certificate (kRun kmsCfg KState.init kmsLeftoverHistory).ca ⟨"sk", 2⟩ = none ∧
    (kRun kmsCfg KState.init kmsLeftoverHistory).ca.primarySigning = ⟨"sk", 1⟩ ∧
    (kRun kmsCfg KState.init (kmsLeftoverHistory ++ [.rotate noFlags ⟨"signA", none, 3000⟩ env0])).svc.signer? ⟨"sk", 2⟩ = some 2 ∧
    (kRun kmsCfg KState.init (kmsLeftoverHistory ++ [.rotate noFlags ⟨"signA", none, 3000⟩ env0])).ca.primarySigning = ⟨"sk", 3⟩ ∧
    (kRun kmsCfg KState.init (kmsLeftoverHistory ++ [.wipeout noFlags false true])).svc.signer? ⟨"sk", 2⟩ = none := by
  refine ⟨⟨fun _ => rfl, fun h => by simp [isBootstrapK] at h, trivial⟩, by decide, by decide, by decide, by decide, by decide, by decide⟩

/-! ### key-version names -/

/-- **Version numbers are never handed out twice — all histories** (stronger than "not reused between
    wipeouts": Cloud KMS keeps counting across wipeouts).  Before any command: the name the next
    CreateCryptoKeyVersion hands out under a cryptoKey does not exist and is not recorded by the authority. -/
theorem C12_kms_names_fresh (cfg : KCfg) (h : List KCmd) (k : String) :
    (kRun cfg KState.init h).svc.has ((kRun cfg KState.init h).svc.nextName k) = false ∧
    certificate (kRun cfg KState.init h).ca ((kRun cfg KState.init h).svc.nextName k) = none := by
  have hu := InvU_run cfg h _ InvU_init
  exact ⟨nextName_not_has _ _, by simp [certificate, hu.next_fresh k]⟩

/-- … and a successful rotation's new primary is that name: a version that did not exist before, ENABLED now. -/
theorem C12_kms_rotation_new_version (cfg : KCfg) (h : List KCmd) (f : Flags) (a : RotArgs) (e : Env)
    (hk : f.keepGoing = false)
    (hok : (kStep cfg (kRun cfg KState.init h) (.rotate f a e)).2 = true) :
    (kStep cfg (kRun cfg KState.init h) (.rotate f a e)).1.ca.primarySigning = (kRun cfg KState.init h).svc.nextName cfg.signKey ∧
    (kRun cfg KState.init h).svc.has ((kRun cfg KState.init h).svc.nextName cfg.signKey) = false ∧
    (kStep cfg (kRun cfg KState.init h) (.rotate f a e)).1.svc.has ((kRun cfg KState.init h).svc.nextName cfg.signKey) = true := by
  refine ⟨?_, nextName_not_has _ _, ?_⟩
  · generalize kRun cfg KState.init h = s at hok ⊢
    simp only [kStep] at hok ⊢
    cases hr : resolveSerial s.ca a.serial with
    | none => simp [hr] at hok
    | some n =>
      simp only [hr] at hok ⊢
      rcases kRotate_shape cfg f e s a.cn n a.now with ⟨_, e2, _⟩ | ⟨c, _, _, _, _, h5, h6, _⟩
      · rw [e2] at hok; cases hok
      · rw [h6]; exact (caAfterRotate_ok_nokg h5 hk).1
  · generalize kRun cfg KState.init h = s at hok ⊢
    simp only [kStep] at hok ⊢
    cases hr : resolveSerial s.ca a.serial with
    | none => simp [hr] at hok
    | some n =>
      simp only [hr] at hok ⊢
      rcases kRotate_shape cfg f e s a.cn n a.now with ⟨_, e2, _⟩ | ⟨c, _, h2, _, _, _, _, h7⟩
      · rw [e2] at hok; cases hok
      · rcases h7 with ⟨_, e2, _⟩ | ⟨_, e2, _⟩
        · rw [e2]; exact h2
        · rw [e2]; exact ((destroy_spec _ _).1.1 _ h2).1

/-- No command takes a version away, renumbers one, gives a version other key material or brings one back:
    every existing version still exists afterwards, in the same or a LATER state (nothing re-enables, nothing
    returns to PENDING_GENERATION), and version counts do not decrease. -/
theorem C12_kms_versions_only_move_forward (cfg : KCfg) (s : KState) (c : KCmd) (n : KName) (hn : s.svc.has n = true) :
    (kStep cfg s c).1.svc.has n = true ∧ ((kStep cfg s c).1.svc.ver n).mat = (s.svc.ver n).mat ∧
    (((kStep cfg s c).1.svc.ver n).st = .enabled → (s.svc.ver n).st = .enabled ∨ (s.svc.ver n).st.isPending = true) ∧
    s.svc.count n.base ≤ (kStep cfg s c).1.svc.count n.base := by
  obtain ⟨h1, h2⟩ := Prog_step cfg s c
  obtain ⟨a1, a2, a3⟩ := h1 n hn
  exact ⟨a1, a3, a2.2.2, (h2 n.base ((has_iff _ _).mp hn).1).2⟩

/-- C10's naming scheme `<cryptoKey>/cryptoKeyVersions/<n>`: distinct numbers are distinct resource names. -/
theorem C12_kms_version_names_injective (parent : String) (a b : Nat)
    (h : GceTcb.CA.verName parent a = GceTcb.CA.verName parent b) : a = b :=
  GceTcb.CA.verName_inj parent a b h

/-! ### no certificate object changes without overwrite -/

/-- All histories: a bootstrap or rotation without overwrite leaves every existing certificate object and the
    root object as they were. -/
theorem C12_kms_no_clobber (cfg : KCfg) (h : List KCmd) (c : KCmd)
    (hi : isIssuingK c = true) (hf : c.flags.overwrite = false) :
    (∀ p x, get (kRun cfg KState.init h).ca.objects p = some x → get (kStep cfg (kRun cfg KState.init h) c).1.ca.objects p = some x) ∧
    (∀ r, (kRun cfg KState.init h).ca.rootObj = some r → (kStep cfg (kRun cfg KState.init h) c).1.ca.rootObj = some r) := by
  generalize kRun cfg KState.init h = s
  have key : ∀ m : Mut, (∀ p x, get s.ca.objects p = some x → get (gcsFinalize true c.flags s.ca m).1.objects p = some x) ∧
      (∀ r, s.ca.rootObj = some r → (gcsFinalize true c.flags s.ca m).1.rootObj = some r) := by
    intro m
    obtain ⟨e1, e2⟩ := gcsFinalize_ext true c.flags s.ca m
    refine ⟨e1 hf, ?_⟩
    intro r hr
    rcases e2 with e | ⟨r', _, _, e⟩
    · rw [e]; exact hr
    · rcases e with e | e
      · rw [hr] at e; cases e
      · rw [hf] at e; cases e
  cases c with
  | wipeout f a b => simp [isIssuingK] at hi
  | ext x => simp [isIssuingK] at hi
  | bootstrap f a e sf =>
    simp only [kStep]
    rcases (kBootstrap_shape cfg f a e sf s).2 with ⟨e1, _⟩ | ⟨rootKV, signKV, _, _, _, _, _, _, h7, _⟩
    · rw [e1]; exact ⟨fun _ _ hx => hx, fun _ hx => hx⟩
    · rw [h7]
      rcases kBootCerts_shape f a (kBootstrap cfg f a e sf s).1.svc rootKV signKV s.ca sf with e1 | ⟨rc, sc, rk, sk, _, _, _, _, e1⟩
      · rw [e1]; exact ⟨fun _ _ hx => hx, fun _ hx => hx⟩
      · rw [e1]; exact key _
  | rotate f a e =>
    simp only [kStep]
    cases hr : resolveSerial s.ca a.serial with
    | none => exact ⟨fun _ _ hx => hx, fun _ hx => hx⟩
    | some n =>
      simp only []
      rcases kRotate_shape cfg f e s a.cn n a.now with ⟨e1, _, _⟩ | ⟨c, _, _, _, _, _, h6, _⟩
      · rw [e1]; exact ⟨fun _ _ hx => hx, fun _ hx => hx⟩
      · rw [h6, caAfterRotate_eq]; exact key _


/-! ### wipeout -/

/-- All histories: `wipeout ca` leaves no certificate recorded, stored or served. -/
theorem C12_kms_wipeout_ca (cfg : KCfg) (h : List KCmd) (f : Flags) (k : Bool) :
    (kStep cfg (kRun cfg KState.init h) (.wipeout f true k)).1.ca = CA.empty ∧
    (∀ n, certificate (kStep cfg (kRun cfg KState.init h) (.wipeout f true k)).1.ca n = none) ∧
    bundle caCfg (kStep cfg (kRun cfg KState.init h) (.wipeout f true k)).1.ca = none :=
  ⟨rfl, fun _ => rfl, rfl⟩

/-- FULL STATEMENT (fails today, see C12_kms_finding_pending_survives): after a successful `wipeout keys` no key
    version can sign — now, or after whatever Cloud KMS does on its own (pending generations completing, versions
    disabled, destroy-scheduled versions destroyed). -/
def C12_kms_wipeout_total : Prop :=
  ∀ (cfg : KCfg) (h : List KCmd) (f : Flags) (c : Bool),
    (kStep cfg (kRun cfg KState.init h) (.wipeout f c true)).2 = true →
    ∀ (t : List KmsH.Ext) (n : KName),
      (kRun cfg (kStep cfg (kRun cfg KState.init h) (.wipeout f c true)).1 (t.map .ext)).svc.signer? n = none

/-- Proved part: no key version is PENDING_GENERATION when the wipeout runs.  Then every version is
    DESTROY_SCHEDULED or DESTROYED afterwards and stays unable to sign under every sequence of external events.
    Missing: Manager.wipeoutKey skips PENDING_GENERATION versions (Cloud KMS refuses to destroy them) — C12-K6. -/
theorem C12_kms_wipeout_total_partial (cfg : KCfg) (h : List KCmd) (f : Flags) (c : Bool)
    (hnp : NoPending (kRun cfg KState.init h).svc)
    (_hok : (kStep cfg (kRun cfg KState.init h) (.wipeout f c true)).2 = true)
    (t : List KmsH.Ext) (n : KName) :
    (kRun cfg (kStep cfg (kRun cfg KState.init h) (.wipeout f c true)).1 (t.map .ext)).svc.signer? n = none :=
  Dead_signer (Dead_exts cfg t _ (wipeKeys_dead _ (NoPend_of_NoPending hnp))) n

/-- … and more: with no version PENDING_GENERATION, `wipeout keys` reports success and every key version that
    exists is DESTROY_SCHEDULED or DESTROYED afterwards — none is left DISABLED, which an operator could enable again. -/
theorem C12_kms_wipeout_retires_all (cfg : KCfg) (h : List KCmd) (f : Flags) (c : Bool)
    (hnp : NoPending (kRun cfg KState.init h).svc) :
    (kStep cfg (kRun cfg KState.init h) (.wipeout f c true)).2 = true ∧
    ∀ n, (kRun cfg KState.init h).svc.has n = true →
      ((kStep cfg (kRun cfg KState.init h) (.wipeout f c true)).1.svc.ver n).st = .scheduled ∨
      ((kStep cfg (kRun cfg KState.init h) (.wipeout f c true)).1.svc.ver n).st = .destroyed :=
  ⟨wipeKeys_ok _ (NoPend_of_NoPending hnp), fun n hn => wipeKeys_gone _ (NoPend_of_NoPending hnp) n hn⟩

/-- Every history in which no command's context expires during a wait (no "timeout waiting for key generation")
    has no PENDING_GENERATION version at any command boundary — so wipeout is total in all of them. -/
theorem C12_kms_no_deadline_no_pending (cfg : KCfg) (h : List KCmd) (hd : NoDeadline h) :
    NoPending (kRun cfg KState.init h).svc :=
  NoPending_of_NoPend (NoPend_run cfg h _ hd (fun n hn => by simp [KState.init, Svc.init, Svc.has] at hn))

theorem C12_kms_wipeout_total_no_deadline (cfg : KCfg) (h : List KCmd) (hd : NoDeadline h) (f : Flags) (c : Bool)
    (hok : (kStep cfg (kRun cfg KState.init h) (.wipeout f c true)).2 = true) (t : List KmsH.Ext) (n : KName) :
    (kRun cfg (kStep cfg (kRun cfg KState.init h) (.wipeout f c true)).1 (t.map .ext)).svc.signer? n = none :=
  C12_kms_wipeout_total_partial cfg h f c (C12_kms_no_deadline_no_pending cfg h hd) hok t n

/-- bootstrap; a rotation whose context expires while version 2 of the signing cryptoKey is being generated -/
def kmsPendingHistory : List KCmd :=
  [.bootstrap noFlags ⟨"rootA", "signA", 1, 2, 1000⟩ env0 false, .rotate noFlags ⟨"signA", none, 2000⟩ { gen := 1, deadline := true }]

/-- C12-K6 witness: the version left PENDING_GENERATION by the timed-out rotation is skipped by `wipeout keys`
    (which reports success), its generation completes afterwards, and it can sign. -/
theorem C12_kms_finding_pending_survives : ¬ C12_kms_wipeout_total := by
  intro hfull
  have h := hfull kmsCfg kmsPendingHistory noFlags false (by decide) [.settle] ⟨"sk", 2⟩
  revert h; decide

/-! ### the state a version is created in, and what the response of CreateCryptoKeyVersion says

Every `C12_kms_*` theorem above quantifies over the environments of the commands, which include the state
CreateCryptoKeyVersion creates versions in (`Env.created`: PENDING_GENERATION with any countdown, ENABLED at once,
DISABLED, …).  rotate.go never reads the state in the response (C10: `C10_kms_create_response_ignored`);
bootstrap.go's waitForKeyGen does — it returns without polling when the response says ENABLED: -/

/-- **bootstrap's shortcut on the response is sound** for a Cloud KMS whose response reports the state the new
    version is in: creating a version and returning at once when the response says ENABLED gives the same state
    and the same answer as creating it and polling (waitForKeyVersionGen returns at the first poll of an ENABLED
    version; in every other created state the shortcut is not taken). -/
theorem C12_kms_create_shortcut_is_poll (e : KmsH.Env) (s : Svc) (k : String) (hk : s.keys.contains k = true) :
    createAndWait e s k =
      ((waitGen e (s.create e k) (s.nextName k)).1,
       if (waitGen e (s.create e k) (s.nextName k)).2 then some (s.nextName k) else none) :=
  createAndWait_eq e s k hk

/-- a version returned by the create-and-wait path of bootstrap exists and is ENABLED, whatever state it was
    created in (a version created DISABLED, DESTROYED, … is never returned) -/
theorem C12_kms_created_version_enabled (e : KmsH.Env) (s : Svc) (k : String) (hk : s.keys.contains k = true)
    (n : KName) (h : (createAndWait e s k).2 = some n) :
    n = s.nextName k ∧ (createAndWait e s k).1.has n = true ∧ ((createAndWait e s k).1.ver n).st = .enabled := by
  rw [createAndWait_eq e s k hk] at h ⊢
  obtain ⟨_, w2, _⟩ := waitGen_spec e (s.create e k) (s.nextName k)
  by_cases hw : (waitGen e (s.create e k) (s.nextName k)).2 = true
  · simp only [hw, if_true, Option.some.injEq] at h
    subst h
    exact ⟨rfl, w2 hw⟩
  · simp [hw] at h

def envE : KmsH.Env := { gen := 0, deadline := false, created := some .enabled }
def envD : KmsH.Env := { gen := 0, deadline := false, created := some .disabled }

/-- bootstrap; a rotation whose version is created ENABLED; one whose version is created DISABLED (refused at
    the first poll, the version stays DISABLED); keys wiped; bootstrap --keep_going with versions created
    DISABLED (fails: rk/2 is left DISABLED), then with versions created ENABLED (rk/3, sk/4 adopted at once). -/
def kmsCreatedHistory : List KCmd :=
  [.bootstrap noFlags ⟨"rootA", "signA", 1, 2, 1000⟩ env0 false,
   .rotate noFlags ⟨"signA", none, 2000⟩ envE, .rotate noFlags ⟨"signA", none, 3000⟩ envD,
   .wipeout noFlags false true,
   .bootstrap kgFlags ⟨"rootA", "signA", 7, 8, 4000⟩ envD false,
   .bootstrap kgFlags ⟨"rootA", "signA", 7, 8, 5000⟩ envE false]

example :
    (kRun kmsCfg KState.init (kmsCreatedHistory.take 2)).ca.primarySigning = ⟨"sk", 2⟩ ∧
    (kStep kmsCfg (kRun kmsCfg KState.init (kmsCreatedHistory.take 2)) (.rotate noFlags ⟨"signA", none, 3000⟩ envD)).2 = false ∧
    ((kRun kmsCfg KState.init (kmsCreatedHistory.take 3)).svc.ver? ⟨"sk", 3⟩).map (·.st) = some .disabled ∧
    (kRun kmsCfg KState.init (kmsCreatedHistory.take 3)).ca.primarySigning = ⟨"sk", 2⟩ ∧
    (kStep kmsCfg (kRun kmsCfg KState.init (kmsCreatedHistory.take 4)) (.bootstrap kgFlags ⟨"rootA", "signA", 7, 8, 4000⟩ envD false)).2 = false ∧
    ((kRun kmsCfg KState.init (kmsCreatedHistory.take 5)).svc.ver? ⟨"rk", 2⟩).map (·.st) = some .disabled ∧
    (kStep kmsCfg (kRun kmsCfg KState.init (kmsCreatedHistory.take 5)) (.bootstrap kgFlags ⟨"rootA", "signA", 7, 8, 5000⟩ envE false)).2 = true ∧
    (kRun kmsCfg KState.init kmsCreatedHistory).ca.primaryRoot = ⟨"rk", 3⟩ ∧
    (kRun kmsCfg KState.init kmsCreatedHistory).ca.primarySigning = ⟨"sk", 4⟩ ∧
    (kRun kmsCfg KState.init kmsCreatedHistory).svc.live = [⟨"rk", 3⟩, ⟨"sk", 4⟩] := by
  decide

/-! ### the listing scan of bootstrap is C20's -/

/-- Manager.getEnabledOrPendingKeyVersion as modelled here (`scan`: first ENABLED version, else the last
    PENDING_GENERATION one, else none) is C20's `Kms.scanPage` over the listing of the cryptoKey's versions under
    their resource names — so C20's theorems on paging, selection and termination of that loop speak about the
    bootstrap of this model. -/
theorem C12_kms_scan_is_C20_scanPage (s : Svc) (ring k : String) :
    GceTcb.Kms.scanPage ((List.range' 1 (s.count k)).map fun j =>
        (⟨GceTcb.CA.verName (ring ++ "/cryptoKeys/" ++ k) j, (s.ver ⟨k, j⟩).st.code⟩ : GceTcb.Kms.Ver)) none =
      (match scan s k with
       | .ret j => GceTcb.Kms.Scan.ret ⟨GceTcb.CA.verName (ring ++ "/cryptoKeys/" ++ k) j, (s.ver ⟨k, j⟩).st.code⟩
       | .cont p => GceTcb.Kms.Scan.cont (p.map fun j =>
           ⟨GceTcb.CA.verName (ring ++ "/cryptoKeys/" ++ k) j, (s.ver ⟨k, j⟩).st.code⟩)) :=
  scanFrom_eq_scanPage (fun i => (s.ver ⟨k, i⟩).st) (fun j => GceTcb.CA.verName (ring ++ "/cryptoKeys/" ++ k) j)
    (s.count k) 1 none

/-! ### non-vacuity (Cloud KMS) -/

/-- bootstrap; rotate; rotate (the second with a generation delay); everything wiped; a second life with
    keep_going (the key ring and the cryptoKeys are still there); rotate -/
def kmsGoodHistory : List KCmd :=
  [.bootstrap noFlags ⟨"GCE-cc-tcb-root", "GCE-uefi-signer", 1, 2, 1000⟩ env0 false,
   .rotate noFlags ⟨"GCE-uefi-signer", none, 2000⟩ env0, .rotate noFlags ⟨"GCE-uefi-signer", none, 3000⟩ { gen := 2, deadline := false },
   .ext .expire, .wipeout noFlags true true,
   .bootstrap kgFlags ⟨"GCE-cc-tcb-root", "GCE-uefi-signer", 1, 2, 5000⟩ env0 true,
   .rotate noFlags ⟨"GCE-uefi-signer", none, 6000⟩ env0]

/-- The history meets every hypothesis used above: a clean run without expiring contexts; after it the primary
    root is version 2 of the root cryptoKey, the primary signing key version 5 of the signing cryptoKey (numbers
    1–3 belong to the first life, 4 to the second bootstrap), two signing certificates with serials 2 and 3 are
    recorded, only versions rk/2 and sk/5 can sign, a further default rotation and one with an override succeed,
    and so does the wipeout. -/
example : CleanRunK kmsCfg KState.init kmsGoodHistory ∧ NoDeadline kmsGoodHistory := by
  refine ⟨⟨fun _ => rfl, fun h => ?_, fun h => ?_, fun h => ?_, fun h => ?_, fun _ => by decide, fun h => ?_, trivial⟩,
    ⟨rfl, rfl, rfl, rfl, rfl, trivial⟩⟩ <;> simp [isBootstrapK] at h

example :
    (kRun kmsCfg KState.init kmsGoodHistory).ca.primaryRoot = ⟨"rk", 2⟩ ∧
    (kRun kmsCfg KState.init kmsGoodHistory).ca.primarySigning = ⟨"sk", 5⟩ ∧
    ((kRun kmsCfg KState.init kmsGoodHistory).ca.objects.map (·.2.subjSerial)) = [2, 1, 3] ∧
    (kRun kmsCfg KState.init kmsGoodHistory).svc.live = [⟨"rk", 2⟩, ⟨"sk", 5⟩] ∧
    ((kRun kmsCfg KState.init kmsGoodHistory).svc.ver? ⟨"sk", 4⟩).map (·.st) = some .scheduled ∧
    ((kRun kmsCfg KState.init kmsGoodHistory).svc.ver? ⟨"sk", 1⟩).map (·.st) = some .destroyed ∧
    (bundle caCfg (kRun kmsCfg KState.init kmsGoodHistory).ca).isSome = true ∧
    (kStep kmsCfg (kRun kmsCfg KState.init kmsGoodHistory) (.rotate noFlags ⟨"GCE-uefi-signer", none, 7000⟩ env0)).2 = true ∧
    (kStep kmsCfg (kRun kmsCfg KState.init kmsGoodHistory) (.rotate noFlags ⟨"GCE-uefi-signer", some 9, 7000⟩ env0)).2 = true ∧
    (kStep kmsCfg (kRun kmsCfg KState.init kmsGoodHistory) (.wipeout noFlags false true)).2 = true := by
  decide

/-- C12_kms_no_clobber is not vacuous: a rotation without overwrite onto the recorded object of another key
    version is refused and changes nothing; so is a bootstrap without keep_going over the existing key ring. -/
example :
    (kStep kmsCfg (kRun kmsCfg KState.init kmsGoodHistory) (.rotate noFlags ⟨"GCE-uefi-signer", some 2, 7000⟩ env0)).2 = false ∧
    (kStep kmsCfg (kRun kmsCfg KState.init kmsGoodHistory) (.rotate owFlags ⟨"GCE-uefi-signer", some 2, 7000⟩ env0)).2 = false ∧
    (kStep kmsCfg (kRun kmsCfg KState.init kmsGoodHistory)
      (.bootstrap noFlags ⟨"GCE-cc-tcb-root", "GCE-uefi-signer", 1, 2, 9000⟩ env0 false)).2 = false := by
  decide

end GceTcb.KeyHistory
